"""A short *dirty history*, executed in the worker at the start of every shard of every input-quantified check.

Every call below fails - at a different stage of the decoder, of the encoder or of the setter - and, by C08 / C09 / C11 /
C12, a failing call leaves no trace.  The checks therefore never see a library that has only ever been used successfully:
state left behind by an error path (a queued ring, a half-read index, an open ring number, a half-installed table) would
surface in the strings enumerated next.  On a library that keeps those properties the prelude is a no-op, so it cannot
raise an alarm by itself; C11 / C12 explore histories systematically and restore the library per state (no prelude there),
C19 restores the module state before every execution.
"""
DECODES = [
    "[C][C][Ring2][Branch1][Ring1",                     # hanging bracket while the 2nd index symbol of a ring is read
    "[C][C][Branch3][C][=N][C",                         # ... the 3rd index symbol of a branch
    "[C][C][C][Ring1][Ring1][Foo]",                     # unknown symbol with a ring queued
    "[S][S][S][S][Ring1][Ring1][C",                     # hanging bracket with a ring queued
    "[C][Branch1][Ring2][C][Branch1][C][Foo]",          # inside a nested branch
    "[C][C][=Ring1][C].[N][C][C][Ring1][Ring2][CH9]",   # in the second fragment, rings pending in both
    "[C][O][CH9]", "[C][=C][C+0]", "[N][C][C][C][Ring1][Ring2][Branch1_1][C][Cexpl]",     # (the last: legacy symbols, rejected without the flag)
]
ENCODES = [
    "CCCCCC1CX", "C1CC(C", "C1CC)", "C12CC1(", "C%12CC[", "C/C=C/[C@@H](F)(Cl", "c1cccc1", "C=1CC-1", "C(F)(F)(F)(F)(F)F",
    "c1ccccc1C(F)(F)(F)(F)F", "C1CC1c1cccc1", "C[C@@](F)1CCO1[Zz]", "c1cc[nH]c1)", "[13CH3+].[O-](", "C11",
]
TABLES = [{"C": 4}, {"?": 1, "Xx": 2}, {"?": 2, "C": 1, "N": 1.5}, {"C": 1, "N": 1, "?": -1}, "nope", 5,
          {"?": 2, "C+0": 1}, {"H": 0, "?": None}]
_SF = [None]


_TURN = [0]
LAST = [None]       # the turn used by the most recent call in this process (recorded in replay files)


def dirty(turn=None):
    """the lists are rotated by one position per call, so that over the shards of a run every failing call is, at some point,
    the *last* thing the library saw before the enumerated inputs (a later successful call may sweep a residue away)"""
    sf = _SF[0]
    if sf is None:
        import selfies
        sf = _SF[0] = selfies
    if turn is None:
        k = _TURN[0]
        _TURN[0] += 1
    else:
        k = turn
    LAST[0] = k
    flags_d = ({"compatible": True}, {"attribute": True}, {})
    flags_e = ({"attribute": True}, {"strict": False}, {})
    n = len(DECODES)
    for i in range(n):
        x = DECODES[(i + k) % n]
        for kw in (flags_d[k % 3:] + flags_d[:k % 3]):
            try:
                sf.decoder(x, **kw)
            except Exception:
                pass
    n = len(ENCODES)
    for i in range(n):
        s = ENCODES[(i + k) % n]
        for kw in (flags_e[k % 3:] + flags_e[:k % 3]):
            try:
                sf.encoder(s, **kw)
            except Exception:
                pass
    for t in TABLES:
        try:
            sf.set_semantic_constraints(t)
        except Exception:
            pass
