"""oracles for SMILES -> SELFIES -> SMILES round trips (C03, C04, C10), built on the independent reader."""
from mc.oracles import smiread


def compare_skeleton(ain, aout):
    """C03: same atoms index by index (element, isotope, charge, H count), same bonded pairs,
    same order on every non-aromatic bond.  Returns None or (sig, detail)."""
    if len(ain) != len(aout):
        return "atom-count", "%d atoms in, %d out" % (len(ain), len(aout))
    for i, (a, b) in enumerate(zip(ain, aout)):
        if a.elem != b.elem:
            return "atom-element", "atom %d: %s -> %s" % (i, a.text, b.text)
        if a.iso != b.iso:
            return "atom-isotope", "atom %d: %s -> %s" % (i, a.text, b.text)
        if a.charge != b.charge:
            return "atom-charge", "atom %d: %s -> %s" % (i, a.text, b.text)
        if a.h != b.h:
            return "atom-hcount", "atom %d: %s (H=%r) -> %s (H=%r)" % (i, a.text, a.h, b.text, b.h)
        if b.arom:
            return "aromatic-output", "atom %d written lower-case in the output" % i
    bi, bo = smiread.bonds_of(ain), smiread.bonds_of(aout)
    if set(bi) != set(bo):
        return "bonded-pairs", "in %r out %r" % (sorted(set(bi) - set(bo)), sorted(set(bo) - set(bi)))
    for k, o in bi.items():
        if o == 1.5:
            if bo[k] not in (1, 2):
                return "aromatic-bond-order", "bond %r became order %r" % (k, bo[k])
        elif bo[k] != o:
            return "bond-order", "bond %r: order %r -> %r" % (k, o, bo[k])
    return None


def compare_stereo(ain, aout):
    """C04: parity of each tagged centre judged from the written neighbour order; every '/' '\\' mark found again
    on the same bond with the same direction."""
    for i, (a, b) in enumerate(zip(ain, aout)):
        if a.chir:
            if not b.chir:
                return "chirality-lost", "atom %d: %s -> %s" % (i, a.text, b.text)
            n1, n2 = smiread.nbr_sequence(a), smiread.nbr_sequence(b)
            if sorted(map(str, n1)) != sorted(map(str, n2)):
                return "chirality-neighbours", "atom %d: neighbours %r -> %r" % (i, n1, n2)
            if len(set(map(str, n1))) != len(n1):
                continue
            par = smiread.perm_parity(n1, n2)
            same = (a.chir == b.chir)
            if same != (par == 0):
                return "chirality-inverted", "atom %d: %s %r -> %s %r (permutation parity %d)" % (
                    i, a.chir, n1, b.chir, n2, par)
        elif b.chir:
            return "chirality-invented", "atom %d: %s -> %s" % (i, a.text, b.text)
    m1, m2 = smiread.marks_of(ain), smiread.marks_of(aout)
    if m1 != m2:
        return "cis-trans-marks", "marks in %r out %r" % (sorted(m1), sorted(m2))
    return None
