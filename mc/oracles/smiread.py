"""Independent SMILES reader (prototype) - no selfies imports.

Reads a SMILES string into atoms + per-atom written neighbour order.
Strict: raises SmiError on anything not legal OpenSMILES-ish syntax.
"""
import re

ORGANIC = ("Cl", "Br", "B", "C", "N", "O", "P", "S", "F", "I")
AROMATIC = ("b", "c", "n", "o", "p", "s")
BRACKET = re.compile(
    r"^\[(\d*)([A-Z][a-z]?|[a-z][a-z]?)(@{0,2})(?:H(\d?))?((?:\+\+*|--*|[+-]\d+)?)(?::(\d+))?\]$")
BOND_ORDER = {"-": 1, "=": 2, "#": 3, ":": 1.5, "/": 1, "\\": 1}


class SmiError(Exception):
    pass


class A:
    __slots__ = ("elem", "arom", "iso", "chir", "h", "charge", "bracket", "nbrs", "text")

    def __init__(self):
        self.nbrs = []  # written order: entries [kind, other, order, mark]  kind in prev/ring/child/H

    def key(self):
        return (self.elem, self.iso, self.chir, self.h, self.charge)


def read_atom(tok):
    a = A()
    a.text = tok
    if tok[0] != "[":
        a.bracket = False
        a.iso = None
        a.chir = None
        a.h = None
        a.charge = 0
        if tok in ORGANIC:
            a.elem, a.arom = tok, False
        elif tok in AROMATIC:
            a.elem, a.arom = tok.upper(), True
        else:
            raise SmiError("bad atom " + tok)
        return a
    m = BRACKET.match(tok)
    if not m:
        raise SmiError("bad bracket atom " + tok)
    iso, el, chir, h, ch, _cls = m.groups()
    a.bracket = True
    a.iso = int(iso) if iso else None
    a.arom = el[0].islower()
    a.elem = el.capitalize()
    a.chir = chir or None
    if h is None:
        a.h = 0
    else:
        a.h = 1 if h == "" else int(h)
    if not ch:
        a.charge = 0
    elif ch[-1].isdigit():
        a.charge = int(ch[1:]) * (1 if ch[0] == "+" else -1)
    else:
        a.charge = len(ch) * (1 if ch[0] == "+" else -1)
    return a


def read_smiles(s, max_ring_label=99):
    """returns list of atoms; atoms[i].nbrs in written order.
    nbr entry: (kind, j, order, mark) ; order None = implicit bond symbol.
    """
    atoms = []
    i, n = 0, len(s)
    prev = None           # index of atom the next thing attaches to
    stack = []
    pending = None        # pending bond symbol
    open_rings = {}       # label -> (atom, bond symbol, slot index in nbrs)
    bonded = set()
    frag_has_atom = False
    just_opened = False   # directly after '(' or start/dot
    if n == 0:
        raise SmiError("empty")

    def add_bond(a, b, sym_a, sym_b, kind_a, kind_b, slot_a=None):
        if a == b:
            raise SmiError("self bond")
        k = (min(a, b), max(a, b))
        if k in bonded:
            raise SmiError("duplicate bond")
        bonded.add(k)
        syms = [x for x in (sym_a, sym_b) if x is not None]
        marks = {"/", "\\"}
        if len(syms) == 2 and syms[0] != syms[1] and not (syms[0] in marks and syms[1] in marks):
            raise SmiError("ring bond symbol mismatch")
        order = None
        for x in syms:
            order = BOND_ORDER[x]
        ea = [kind_a, b, order, sym_a if sym_a in marks else None]
        eb = [kind_b, a, order, sym_b if sym_b in marks else None]
        if slot_a is None:
            atoms[a].nbrs.append(ea)
        else:
            atoms[a].nbrs[slot_a] = ea
        atoms[b].nbrs.append(eb)

    while i < n:
        c = s[i]
        if c in BOND_ORDER:
            if pending is not None:
                raise SmiError("double bond symbol")
            pending = c
            i += 1
            if i == n:
                raise SmiError("dangling bond")
            continue
        if c == ".":
            if pending is not None or stack or prev is None or just_opened:
                raise SmiError("bad dot")
            prev = None
            frag_has_atom = False
            i += 1
            if i == n:
                raise SmiError("trailing dot")
            continue
        if c == "(":
            if pending is not None or prev is None or just_opened:
                raise SmiError("bad (")
            stack.append(prev)
            just_opened = True
            i += 1
            continue
        if c == ")":
            if pending is not None or not stack or just_opened:
                raise SmiError("bad )")
            prev = stack.pop()
            i += 1
            # after ')' only '(' , atom/bond, or ')' allowed .. ring digit after branch is nonstandard
            if i < n and (s[i].isdigit() or s[i] == "%"):
                raise SmiError("ring digit after branch")
            continue
        if c.isdigit() or c == "%":
            if c == "%":
                lab = s[i + 1:i + 3]
                if len(lab) != 2 or not lab.isdigit():
                    raise SmiError("bad % label")
                i += 3
            else:
                lab = c
                i += 1
            lab = int(lab)
            if prev is None or just_opened:
                raise SmiError("ring digit without atom")
            if lab in open_rings:
                a, sym_a, slot = open_rings.pop(lab)
                add_bond(a, prev, sym_a, pending, "ring", "ring", slot)
            else:
                atoms[prev].nbrs.append(None)
                open_rings[lab] = (prev, pending, len(atoms[prev].nbrs) - 1)
            pending = None
            continue
        # atom
        if c == "[":
            j = s.find("]", i)
            if j < 0:
                raise SmiError("unclosed [")
            tok = s[i:j + 1]
            i = j + 1
        elif s[i:i + 2] in ("Cl", "Br"):
            tok = s[i:i + 2]
            i += 2
        else:
            tok = c
            i += 1
        a = read_atom(tok)
        atoms.append(a)
        idx = len(atoms) - 1
        if prev is None and not just_opened:
            if pending is not None:
                raise SmiError("leading bond")
        else:
            p = stack[-1] if just_opened else prev
            if p is None:
                raise SmiError("no prev")
            add_bond(p, idx, pending, None, "child", "prev")
            # fix: child's entry must carry the bond symbol too
            atoms[idx].nbrs[-1][3] = pending if pending in ("/", "\\") else None
        pending = None
        prev = idx
        just_opened = False
    if pending is not None:
        raise SmiError("dangling bond")
    if stack or just_opened:
        raise SmiError("unclosed (")
    if open_rings:
        raise SmiError("unclosed ring")
    return atoms


def graph(atoms):
    """(atom keys, {(i,j): order}) with implicit bonds resolved (aromatic pair -> 1.5 else 1)."""
    bonds = {}
    for i, a in enumerate(atoms):
        for kind, j, order, mark in a.nbrs:
            if order is None:
                order = 1.5 if (a.arom and atoms[j].arom) else 1
            bonds[(min(i, j), max(i, j))] = order
    return [(a.elem, a.iso, a.h, a.charge) for a in atoms], bonds
