"""O1 - independent SMILES reader.  Imports nothing from selfies.

Written from the OpenSMILES grammar:
    chain         ::= branched_atom ( bond? branched_atom | dot branched_atom )*
    branched_atom ::= atom ringbond* branch*
    branch        ::= '(' bond? chain ')'
    ringbond      ::= bond? DIGIT | bond? '%' DIGIT DIGIT
Strict mode rejects everything outside it (unbalanced branches, ring label not closed / closed twice,
self bond, second bond between a bonded pair, conflicting ring-bond symbols, leading / trailing bond,
leading / trailing / doubled dot, ring digit after a branch, empty branch).

tolerant=True additionally accepts the spellings selfies.encoder is lenient about (and which are
therefore inside the domain "every SMILES the encoder accepts"): a bond symbol before the first atom
of a fragment (ignored), empty fragments (doubled / trailing dots), ring-bond digits written after a
branch.  The written neighbour order is simply the order of appearance in both modes.

read_smiles(s) -> list of Atom; Atom.nbrs is the *written neighbour sequence*: entries
[kind, other, order, mark] with kind in {"prev","ring","child"}, order None when no bond symbol was
written, mark '/' or '\\' as written at this end of the bond (for a chain bond the symbol is written
once and recorded on both ends).
"""
import re

ORGANIC = ("Cl", "Br", "B", "C", "N", "O", "P", "S", "F", "I")
AROMATIC = ("b", "c", "n", "o", "p", "s")
BRACKET = re.compile(
    r"^\[(\d*)([A-Z][a-z]?|[a-z][a-z]?)(@{0,2})(?:H(\d?))?((?:\+\+*|--*|[+-]\d+)?)(?::(\d+))?\]\Z")
BOND_ORDER = {"-": 1, "=": 2, "#": 3, ":": 1.5, "/": 1, "\\": 1}
MARKS = ("/", "\\")


class SmiError(Exception):
    pass


class Atom:
    __slots__ = ("elem", "arom", "iso", "chir", "h", "charge", "bracket", "nbrs", "text", "pos", "cls")

    def __init__(self):
        self.nbrs = []

    def key(self):
        """element, isotope, explicit-H count (None = implicit, organic subset), charge"""
        return (self.elem, self.iso, self.h, self.charge)

    def fullkey(self):
        return (self.elem, self.iso, self.chir, self.h, self.charge)


def read_atom(tok, ext=False):
    a = Atom()
    if ext:
        # opt-in OpenSMILES features selfies.encoder documents as unsupported: the wildcard atom and the tetrahedral class
        # spelled out (@TH1 = @, @TH2 = @@)
        if tok == "*":
            a.text, a.cls, a.bracket, a.iso, a.chir, a.h, a.charge, a.elem, a.arom = tok, None, False, None, None, None, 0, "*", False
            return a
        tok2 = tok.replace("@TH1", "@").replace("@TH2", "@@")
        if tok2.startswith("[") and "*" in tok2:
            b = read_atom(tok2.replace("*", "Xx", 1))
            b.elem, b.text = "*", tok
            return b
        if tok2 != tok:
            b = read_atom(tok2)
            b.text = tok
            return b
    a.text = tok
    a.cls = None
    if tok[0] != "[":
        a.bracket = False
        a.iso = None
        a.chir = None
        a.h = None
        a.charge = 0
        if tok in ORGANIC:
            a.elem, a.arom = tok, False
        elif tok in AROMATIC:
            a.elem, a.arom = tok.upper(), True
        else:
            raise SmiError("bad atom " + tok)
        return a
    m = BRACKET.match(tok)
    if not m:
        raise SmiError("bad bracket atom " + tok)
    iso, el, chir, h, ch, cls = m.groups()
    a.bracket = True
    a.iso = int(iso) if iso else None
    a.arom = el[0].islower()
    a.elem = el.capitalize()
    a.chir = chir or None
    a.cls = cls
    if h is None:
        a.h = 0
    else:
        a.h = 1 if h == "" else int(h)
    if not ch:
        a.charge = 0
    elif ch[-1].isdigit():
        a.charge = int(ch[1:]) * (1 if ch[0] == "+" else -1)
    else:
        a.charge = len(ch) * (1 if ch[0] == "+" else -1)
    return a


def read_smiles(s, tolerant=False, ring_across_dot=True, dot_in_branch=False, ext=False):
    """dot_in_branch: OpenSMILES allows '.' inside a parenthesised branch (the next atom is then not bonded to anything
    before it, the enclosing chain resumes at ')'); selfies.encoder documents that as unsupported, so it is only read when
    asked for"""
    atoms = []
    i, n = 0, len(s)
    prev = None           # index of the atom the next item attaches to (None at fragment start)
    stack = []
    pending = None        # pending bond symbol
    open_rings = {}       # label -> (atom, bond symbol, slot index in nbrs)
    bonded = set()
    just_opened = False   # directly after '('
    after_branch = False  # directly after ')' (ring digits illegal in strict mode)
    detached = False      # directly after a '.' inside a branch: the next atom starts a new component
    if n == 0:
        raise SmiError("empty")

    def add_bond(a, b, sym_a, sym_b, kind_a, kind_b, slot_a=None):
        if a == b:
            raise SmiError("self bond")
        k = (a, b) if a < b else (b, a)
        if k in bonded:
            raise SmiError("duplicate bond")
        bonded.add(k)
        syms = [x for x in (sym_a, sym_b) if x is not None]
        if len(syms) == 2 and syms[0] != syms[1] and not (syms[0] in MARKS and syms[1] in MARKS):
            raise SmiError("ring bond symbol mismatch")
        order = None
        for x in syms:
            order = 4 if x == "$" else BOND_ORDER[x]
        ea = [kind_a, b, order, sym_a if sym_a in MARKS else None]
        eb = [kind_b, a, order, sym_b if sym_b in MARKS else None]
        if slot_a is None:
            atoms[a].nbrs.append(ea)
        else:
            atoms[a].nbrs[slot_a] = ea
        atoms[b].nbrs.append(eb)

    while i < n:
        c = s[i]
        if c in BOND_ORDER or (ext and c == "$"):
            if pending is not None:
                raise SmiError("double bond symbol")
            pending = c
            i += 1
            if i == n:
                raise SmiError("dangling bond")
            continue
        if c == "." and dot_in_branch and (stack or just_opened) and pending is None and i + 1 < n and not detached:
            detached = True
            i += 1
            continue
        if c == ".":
            if pending is not None or stack or just_opened:
                raise SmiError("bad dot")
            if prev is None and not (tolerant and atoms):
                raise SmiError("bad dot")
            if open_rings and not ring_across_dot:
                raise SmiError("ring bond across dot")     # legal SMILES, but selfies.encoder documents it as unsupported
            prev = None
            after_branch = False
            i += 1
            if i == n and not tolerant:
                raise SmiError("trailing dot")
            continue
        if c == "(":
            if pending is not None or prev is None or just_opened or detached:
                raise SmiError("bad (")
            stack.append(prev)
            just_opened = True
            after_branch = False
            i += 1
            continue
        if c == ")":
            if pending is not None or not stack or just_opened or detached:
                raise SmiError("bad )")
            prev = stack.pop()
            after_branch = True
            i += 1
            continue
        if (c.isdigit() and c.isascii()) or c == "%":
            if c == "%":
                lab = s[i + 1:i + 3]
                if len(lab) != 2 or not (lab.isdigit() and lab.isascii()):
                    raise SmiError("bad % label")
                i += 3
            else:
                lab = c
                i += 1
            lab = int(lab)
            if prev is None or just_opened or detached:
                raise SmiError("ring digit without atom")
            if after_branch and not tolerant:
                raise SmiError("ring digit after branch")
            if lab in open_rings:
                a, sym_a, slot = open_rings.pop(lab)
                add_bond(a, prev, sym_a, pending, "ring", "ring", slot)
            else:
                atoms[prev].nbrs.append(None)
                open_rings[lab] = (prev, pending, len(atoms[prev].nbrs) - 1)
            pending = None
            continue
        # atom
        start = i
        if c == "[":
            j = s.find("]", i)
            if j < 0:
                raise SmiError("unclosed [")
            tok = s[i:j + 1]
            i = j + 1
        elif s[i:i + 2] in ("Cl", "Br"):
            tok = s[i:i + 2]
            i += 2
        else:
            tok = c
            i += 1
        a = read_atom(tok, ext)
        a.pos = start
        atoms.append(a)
        idx = len(atoms) - 1
        if detached:
            if pending is not None:
                raise SmiError("bond symbol after dot")
            detached = False
        elif prev is None and not just_opened:
            if pending is not None and not tolerant:
                raise SmiError("leading bond")
        else:
            p = stack[-1] if just_opened else prev
            add_bond(p, idx, pending, None, "child", "prev")
            atoms[idx].nbrs[-1][3] = pending if pending in MARKS else None
        pending = None
        prev = idx
        just_opened = False
        after_branch = False
    if pending is not None:
        raise SmiError("dangling bond")
    if stack or just_opened:
        raise SmiError("unclosed (")
    if open_rings:
        raise SmiError("unclosed ring")
    if not atoms:
        raise SmiError("no atoms")
    return atoms


def bonds_of(atoms):
    """{(i,j): order} with unwritten bond symbols resolved (aromatic pair -> 1.5 else 1)."""
    bonds = {}
    for i, a in enumerate(atoms):
        for kind, j, order, mark in a.nbrs:
            if order is None:
                order = 1.5 if (a.arom and atoms[j].arom) else 1
            bonds[(i, j) if i < j else (j, i)] = order
    return bonds


def graph(atoms):
    return [a.key() for a in atoms], bonds_of(atoms)


def bond_sums(atoms):
    """per atom: sum of bond orders (aromatic bonds counted 1.5)"""
    sums = [0] * len(atoms)
    for (i, j), o in bonds_of(atoms).items():
        sums[i] += o
        sums[j] += o
    return sums


def nbr_sequence(a):
    """neighbour sequence that fixes the sense of a chiral centre: preceding atom, implicit/explicit H,
    then ring-closure partners and branches/chain in written order."""
    seq = []
    ents = a.nbrs
    k = 0
    if ents and ents[0] is not None and ents[0][0] == "prev":
        seq.append(ents[0][1])
        k = 1
    if a.h:
        seq.extend("H%d" % q for q in range(a.h))
    for e in ents[k:]:
        seq.append(e[1])
    return seq


def perm_parity(a, b):
    """parity of the permutation taking sequence a to sequence b (distinct items)"""
    pos = {x: i for i, x in enumerate(a)}
    p = [pos[x] for x in b]
    inv = 0
    for i in range(len(p)):
        for j in range(i + 1, len(p)):
            if p[i] > p[j]:
                inv += 1
    return inv % 2


def marks_of(atoms):
    """set of (lo, hi, kind, direction) for every '/' '\\' mark, direction normalised to lo->hi.
    A chain bond carries one mark (written before the child, read parent->child);
    a ring bond may carry one mark per end, each read from the atom where it is written."""
    flip = {"/": "\\", "\\": "/"}
    out = set()
    for i, a in enumerate(atoms):
        for kind, j, o, mk in a.nbrs:
            if mk is None or kind == "prev":
                continue
            if kind == "child":
                out.add((i, j, mk))
            else:
                out.add((min(i, j), max(i, j), mk if i < j else flip[mk]))
    return out
