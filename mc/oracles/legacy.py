"""independent moderniser for pre-v2 SELFIES symbols, written from CHANGELOG v2.0.0 and the v1 docs table
(docs/source/derivation.rst still uses the v1 names).  Imports nothing from selfies."""
import re

from mc.oracles.misc import ELEMENTS, ORGANIC

LEG_B = re.compile(r"^\[Branch([123])_([123])\]\Z")
LEG_R = re.compile(r"^\[Expl([=#/\\])Ring([123])\]\Z")
LEG_A = re.compile(r"^\[([=#/\\]?)(\d*)([A-Z][a-z]?)(@{0,2})(?:H(\d?))?((?:\++|-+|[+-]\d+)?)(?::\d+)?expl\]\Z")


def modern(sym):
    m = LEG_B.match(sym)
    if m:
        return "[%sBranch%s]" % (["", "=", "#"][int(m.group(2)) - 1], m.group(1))
    m = LEG_R.match(sym)
    if m:
        b = m.group(1)
        return "[%sRing%s]" % ({"=": "=", "#": "#", "/": "//", "\\": "\\\\"}[b], m.group(2))
    m = LEG_A.match(sym)
    if m:
        b, iso, el, ch, h, q = m.groups()
        if el not in ELEMENTS:
            return sym
        hn = 0 if h is None else (1 if h == "" else int(h))
        if not q:
            c = 0
        elif q[-1].isdigit():
            c = int(q[1:]) * (1 if q[0] == "+" else -1)
        else:
            c = len(q) * (1 if q[0] == "+" else -1)
        body = (iso and str(int(iso)) or "") + el + ch
        if hn:
            body += "H%d" % hn
        elif not iso and not ch and c == 0 and el in ORGANIC:
            body += "H0"
        if c:
            body += "%+d" % c
        return "[%s%s]" % (b, body)
    return sym


def is_legacy(sym):
    return bool(LEG_B.match(sym) or LEG_R.match(sym) or sym.endswith("expl]"))
