"""O2 - reference model of SELFIES derivation.  Imports nothing from selfies.

An executable rendering of docs/source/derivation.rst in the v2 symbol syntax of CHANGELOG v2.0.0
([BranchL_M] -> [Branch/=Branch/#Branch L], [Expl<B>RingL] -> [<B>RingL], [...expl] dropped), as a pure function
    decode(tokens, table) -> Mol   |  raises Reject(symbol)
Decisions the docs leave open are frozen to the behaviour pinned by tests/test_specific_cases.py and listed in
DESIGN.md section 4.2.
"""
import re
import sys

from mc.oracles.misc import ELEMENTS, ORGANIC, IDX, capacity

ATOM_RE = re.compile(r"^\[([=#/\\]?)(\d*)([A-Z][a-z]?)(@{0,2})(?:H(\d))?(?:([+-])([1-9][0-9]*))?\]\Z", re.ASCII)
BRANCH_RE = re.compile(r"^\[([=#]?)Branch([123])\]\Z")
RING_RE = re.compile(r"^\[(|=|#|[-/\\][-/\\])Ring([123])\]\Z")
ORD = {"": 1, "=": 2, "#": 3, "/": 1, "\\": 1, "-": 1}


class Reject(Exception):
    pass


def classify(sym, table):
    m = BRANCH_RE.match(sym)
    if m:
        return ("branch", ORD[m.group(1)], int(m.group(2)))
    m = RING_RE.match(sym)
    if m:
        p = m.group(1)
        if p == "--":
            raise Reject(sym)
        if len(p) == 2:
            marks = tuple(None if c == "-" else c for c in p)
            return ("ring", 1, int(m.group(2)), marks)
        return ("ring", ORD[p], int(m.group(2)), (None, None))
    if sym == "[epsilon]":
        return ("eps",)
    m = ATOM_RE.match(sym)
    if not m:
        raise Reject(sym)
    b, iso, el, chir, h, sg, mag = m.groups()
    if el not in ELEMENTS:
        raise Reject(sym)
    body = sym[1 + len(b):-1]
    charge = 0 if sg is None else int(mag) * (1 if sg == "+" else -1)
    if body in ORGANIC:
        hh = None
    else:
        hh = int(h) if h is not None else 0
    cap = capacity(table, el, charge) - (hh or 0)
    if cap < 0:
        raise Reject(sym)
    mark = b if b in ("/", "\\") else None
    return ("atom", ORD[b], mark, (el, int(iso) if iso else None, chir or None, hh, charge), cap)


class Mol:
    def __init__(self):
        self.atoms = []      # (elem, iso, chir, h, charge)
        self.caps = []
        self.parent = []     # (parent idx, order, mark) or None
        self.children = []   # child indices in derivation order
        self.ringnbrs = []   # (other, mark) in formation order
        self.bonds = {}      # (i,j) -> order
        self.used = []
        self.roots = []
        self.rings = []      # ring candidates (left, right, order, marks) in order of appearance
        self.attr = []       # per atom: [(position, symbol) ...] enclosing branch symbols then the atom symbol
        self.consumed = 0    # symbols consumed (positions advance over non-nop, non-dot symbols)

    def summary(self):
        return (tuple(self.atoms), tuple(sorted(self.bonds.items())))


def split_fragments(tokens):
    """tokens (bracket symbols and '.') -> list of fragments of (position, symbol), [nop] dropped;
    positions count symbols of the whole input, ignoring [nop] and '.'"""
    frags = [[]]
    pos = 0
    for t in tokens:
        if t == ".":
            frags.append([])
        elif t != "[nop]":
            frags[-1].append((pos, t))
            pos += 1
    return frags


def decode(tokens, table, trace=None):
    mol = Mol()
    # the model is recursive (one frame per nesting level); the limit is raised only for the duration of this call so
    # that the implementation under test keeps running under the interpreter's normal limit (workers are single-threaded)
    limit = sys.getrecursionlimit()
    need = 3 * len(tokens) + 200
    if need > limit:
        sys.setrecursionlimit(need)
    try:
        for f in split_fragments(tokens):
            it = iter(f)
            _derive(it, mol, float("inf"), 0, None, table, trace, [])
    finally:
        if need > limit:
            sys.setrecursionlimit(limit)
    # second pass: ring candidates in order of appearance, minimal bond-order reduction
    for (l, r, order, marks) in mol.rings:
        if l == r:
            continue
        lfree = mol.caps[l] - mol.used[l]
        rfree = mol.caps[r] - mol.used[r]
        if lfree <= 0 or rfree <= 0:
            continue
        order = min(order, lfree, rfree)
        k = (l, r) if l < r else (r, l)
        if k in mol.bonds:
            new = min(mol.bonds[k] + order, 3)
            d = new - mol.bonds[k]
            mol.bonds[k] = new
            mol.used[l] += d
            mol.used[r] += d
        else:
            mol.bonds[k] = order
            mol.used[l] += order
            mol.used[r] += order
            mol.ringnbrs[l].append((r, marks[0]))
            mol.ringnbrs[r].append((l, marks[1]))
    return mol


_NONE = (None, None)


def _derive(it, mol, budget, state, prev, table, trace, stack):
    n = 0
    while state is not None and n < budget:
        pos, sym = next(it, _NONE)
        if sym is None:
            break
        n += 1
        c = classify(sym, table)
        kind = c[0]
        if trace is not None:
            trace[(kind, min(state, 7), bool(stack))] += 1
        if kind == "branch":
            _, m, L = c
            if state > 1:
                b = min(state - 1, m)
                q = 0
                for _ in range(L):
                    q = q * 16 + IDX.get(next(it, _NONE)[1], 0)
                n += L
                n += _derive(it, mol, q + 1, b, prev, table, trace, stack + [(pos, sym)])
                state = state - b
        elif kind == "ring":
            _, m, L, marks = c
            if state > 0:
                o = min(m, state)
                q = 0
                for _ in range(L):
                    q = q * 16 + IDX.get(next(it, _NONE)[1], 0)
                n += L
                mol.rings.append((max(0, prev - (q + 1)), prev, o, marks))
                state = state - o
                if state == 0:
                    state = None
        elif kind == "eps":
            if state != 0:
                state = None
        else:
            _, beta, mark, key, cap = c
            mu = min(beta, state, cap)
            if mu == 0 and state != 0:
                state = None      # an atom that cannot bond is not attached; the derivation ends here
                break
            idx = len(mol.atoms)
            mol.atoms.append(key)
            mol.caps.append(cap)
            mol.children.append([])
            mol.ringnbrs.append([])
            mol.used.append(mu)
            mol.attr.append(stack + [(pos, sym)])
            if state == 0:
                mol.roots.append(idx)
                mol.parent.append(None)
            else:
                mol.parent.append((prev, mu, mark))
                mol.children[prev].append(idx)
                mol.bonds[(prev, idx)] = mu
                mol.used[prev] += mu
            prev = idx
            state = (cap - mu) or None
    while n < budget:
        if next(it, _NONE)[1] is None:
            break
        n += 1
    return n


def written(mol):
    """per-atom neighbour order as the SMILES must list it: parent, ring bonds in formation order, children in
    derivation order; entries (other, order, mark-as-seen-from-this-atom); marks only survive on single bonds"""
    out = []
    bonds = mol.bonds
    for i in range(len(mol.atoms)):
        l = []
        if mol.parent[i] is not None:
            p, _, mark = mol.parent[i]
            o = bonds[(p, i)]
            l.append((p, o, mark if o == 1 else None))
        for (r, mark) in mol.ringnbrs[i]:
            o = bonds[(r, i) if r < i else (i, r)]
            l.append((r, o, mark if o == 1 else None))
        for ch in mol.children[i]:
            o = bonds[(i, ch)]
            mark = mol.parent[ch][2]
            l.append((ch, o, mark if o == 1 else None))
        out.append(l)
    return out
