"""Reference model of SELFIES derivation (prototype) - no selfies imports.

Rendering of docs/source/derivation.rst in v2 symbol syntax (CHANGELOG v2.0.0),
ambiguities resolved by tests/test_specific_cases.py.
"""
import re

ELEMENTS = set("""H He Li Be B C N O F Ne Na Mg Al Si P S Cl Ar K Ca Sc Ti V Cr Mn Fe Co Ni Cu Zn Ga Ge As Se Br
Kr Rb Sr Y Zr Nb Mo Tc Ru Rh Pd Ag Cd In Sn Sb Te I Xe Cs Ba Hf Ta W Re Os Ir Pt Au Hg Tl Pb Bi Po At Rn Fr Ra Rf Db Sg
Bh Hs Mt Ds Rg Cn Fl Lv La Ce Pr Nd Pm Sm Eu Gd Tb Dy Ho Er Tm Yb Lu Ac Th Pa U Np Pu Am Cm Bk Cf Es Fm Md No Lr""".split())
ORGANIC = {"B", "C", "N", "O", "S", "P", "F", "Cl", "Br", "I"}
INDEX = ["[C]", "[Ring1]", "[Ring2]", "[Branch1]", "[=Branch1]", "[#Branch1]", "[Branch2]", "[=Branch2]",
         "[#Branch2]", "[O]", "[N]", "[=N]", "[=C]", "[#C]", "[S]", "[P]"]
IDX = {s: i for i, s in enumerate(INDEX)}
ATOM_RE = re.compile(r"^\[([=#/\\]?)(\d*)([A-Z][a-z]?)(@{0,2})(?:H(\d))?(?:([+-])([1-9]\d*))?\]$")
BRANCH_RE = re.compile(r"^\[([=#]?)Branch([123])\]$")
RING_RE = re.compile(r"^\[(|=|#|[-/\\][-/\\])Ring([123])\]$")
ORD = {"": 1, "=": 2, "#": 3, "/": 1, "\\": 1, "-": 1}


class Reject(Exception):
    pass


def capacity(table, elem, charge):
    k = elem if charge == 0 else "%s%+d" % (elem, charge)
    return table[k] if k in table else table["?"]


def classify(sym, table):
    m = BRANCH_RE.match(sym)
    if m:
        return ("branch", ORD[m.group(1)], int(m.group(2)))
    m = RING_RE.match(sym)
    if m:
        p = m.group(1)
        if p == "--":
            raise Reject(sym)
        if len(p) == 2:
            marks = tuple(None if c == "-" else c for c in p)
            return ("ring", 1, int(m.group(2)), marks)
        return ("ring", ORD[p], int(m.group(2)), (None, None))
    if sym == "[epsilon]":
        return ("eps",)
    m = ATOM_RE.match(sym)
    if not m:
        raise Reject(sym)
    b, iso, el, chir, h, sg, mag = m.groups()
    if el not in ELEMENTS:
        raise Reject(sym)
    body = sym[1 + len(b):-1]
    charge = 0 if sg is None else int(mag) * (1 if sg == "+" else -1)
    if body in ORGANIC:
        hh = None
    else:
        hh = int(h) if h is not None else 0
    cap = capacity(table, el, charge) - (hh or 0)
    if cap < 0:
        raise Reject(sym)
    mark = b if b in ("/", "\\") else None
    return ("atom", ORD[b], mark, (el, int(iso) if iso else None, chir or None, hh, charge), cap)


class Mol:
    def __init__(self):
        self.atoms = []      # keys
        self.caps = []
        self.parent = []     # (parent idx, order, mark) or None
        self.children = []   # list of child idx
        self.ringnbrs = []   # list of (other, mark) in formation order
        self.bonds = {}      # (i,j) -> order
        self.used = []
        self.roots = []
        self.rings = []      # candidates


def tokenize(s):
    """well-formed strings only: bracket symbols and dots."""
    toks = re.findall(r"\[[^\[\]]*\]|\.", s)
    if "".join(toks) != s:
        raise ValueError("not well formed")
    return toks


def decode(s, table, trace=None):
    toks = tokenize(s)
    mol = Mol()
    frags = [[]]
    for t in toks:
        if t == ".":
            frags.append([])
        elif t != "[nop]":
            frags[-1].append(t)
    for f in frags:
        it = iter(f)
        _derive(it, mol, float("inf"), 0, None, table, trace)
    # second pass
    for (l, r, order, marks) in mol.rings:
        if l == r:
            continue
        lfree = mol.caps[l] - mol.used[l]
        rfree = mol.caps[r] - mol.used[r]
        if lfree <= 0 or rfree <= 0:
            continue
        order = min(order, lfree, rfree)
        k = (min(l, r), max(l, r))
        if k in mol.bonds:
            new = min(mol.bonds[k] + order, 3)
            d = new - mol.bonds[k]
            mol.bonds[k] = new
            mol.used[l] += d
            mol.used[r] += d
        else:
            mol.bonds[k] = order
            mol.used[l] += order
            mol.used[r] += order
            mol.ringnbrs[l].append((r, marks[0]))
            mol.ringnbrs[r].append((l, marks[1]))
    return mol


def _derive(it, mol, budget, state, prev, table, trace):
    n = 0
    while state is not None and n < budget:
        sym = next(it, None)
        if sym is None:
            break
        n += 1
        c = classify(sym, table)
        if trace is not None:
            trace.add((c[0], min(state, 9)))
        if c[0] == "branch":
            _, m, L = c
            if state > 1:
                b = min(state - 1, m)
                q = 0
                for _ in range(L):
                    q = q * 16 + IDX.get(next(it, None), 0)
                n += L
                n += _derive(it, mol, q + 1, b, prev, table, trace)
                state = state - b
        elif c[0] == "ring":
            _, m, L, marks = c
            if state > 0:
                o = min(m, state)
                q = 0
                for _ in range(L):
                    q = q * 16 + IDX.get(next(it, None), 0)
                n += L
                mol.rings.append((max(0, prev - (q + 1)), prev, o, marks))
                state = state - o
                if state == 0:
                    state = None
        elif c[0] == "eps":
            if state != 0:
                state = None
        else:
            _, beta, mark, key, cap = c
            mu = min(beta, state, cap)
            if mu == 0 and state != 0:
                state = None      # zero-capacity atom cannot be attached; derivation ends
                break
            idx = len(mol.atoms)
            mol.atoms.append(key)
            mol.caps.append(cap)
            mol.children.append([])
            mol.ringnbrs.append([])
            mol.used.append(mu)
            if state == 0:
                mol.roots.append(idx)
                mol.parent.append(None)
            else:
                mol.parent.append((prev, mu, mark))
                mol.children[prev].append(idx)
                mol.bonds[(prev, idx)] = mu
                mol.used[prev] += mu
            prev = idx
            state = (cap - mu) or None
    while n < budget:
        if next(it, None) is None:
            break
        n += 1
    return n


def written(mol):
    """per-atom neighbour order as the SMILES must list it: parent, ring bonds, children.
    entries (other, order, mark-as-seen-from-this-atom)"""
    out = []
    for i in range(len(mol.atoms)):
        l = []
        if mol.parent[i] is not None:
            p, _, mark = mol.parent[i]
            o = mol.bonds[(min(p, i), max(p, i))]
            l.append((p, o, mark if o == 1 else None))
        for (r, mark) in mol.ringnbrs[i]:
            o = mol.bonds[(min(r, i), max(r, i))]
            l.append((r, o, mark if o == 1 else None))
        for ch in mol.children[i]:
            o = mol.bonds[(i, ch)]
            mark = mol.parent[ch][2]
            l.append((ch, o, mark if o == 1 else None))
        out.append(l)
    return out
