"""O3 - Kekule oracle.  Imports nothing from selfies.

need_pi(atom, sigma)   the local OpenSMILES rule for the standard aromatic atom kinds named in C05
                       (c, n, o, s, p, [nH], substituted n, [n+], exocyclic c(=O)): the smallest normal valence
                       >= (sum of non-aromatic bond orders + aromatic bonds counted once + H); the atom needs a pi
                       bond iff exactly one valence is left.
has_perfect_matching   brute force (exponential, only for small graphs) / exact via recursion on the lowest vertex.
"""

NORMAL_VALENCES = {"C": (4,), "N": (3, 5), "O": (2,), "P": (3, 5), "S": (2, 4)}      # S(VI) in an aromatic ring is not a standard kind


def need_pi(atom, bondsum):
    """atom: smiread.Atom written lower-case; bondsum: sum of its bond orders with every aromatic bond counted 1.
    True / False for the standard kinds C05 names (c, n, o, s, p, [nH], [cH], substituted n, [n+] / [nH+]);
    None for everything else (charged / radical centres: only the consistency clauses apply)."""
    el = atom.elem
    if el not in NORMAL_VALENCES:
        return None
    if not atom.bracket:
        # implicit hydrogens fill every valence but one, so a pi bond is needed unless the bonds already
        # written use up a normal valence exactly (lone-pair donors o, s, substituted n; exocyclic c(=O))
        if bondsum > NORMAL_VALENCES[el][-1]:
            return None
        return bondsum not in NORMAL_VALENCES[el]
    if atom.chir:
        return None
    used = bondsum + atom.h
    if atom.charge == 0:
        vals = NORMAL_VALENCES[el]
    elif atom.charge == 1 and el == "N":
        vals = (4,)
    else:
        return None
    for v in vals:
        if v >= used:
            if v - used == 0:
                return False
            if v - used == 1:
                return True
            return None          # two or more open valences on a bracket atom: radical centre
    return None


def has_perfect_matching(nodes, adj):
    nodes = frozenset(nodes)

    def rec(u):
        if not u:
            return True
        v = min(u)
        for w in adj[v]:
            if w in u and w != v:
                if rec(u - {v, w}):
                    return True
        return False
    if len(nodes) % 2:
        return False
    return rec(nodes)


def is_perfect_matching(matching, graph):
    """matching[i] = j: symmetric, fixed-point free, along edges, total"""
    n = len(graph)
    if not isinstance(matching, list) or len(matching) != n:
        return False
    for i, j in enumerate(matching):
        if j is None or not isinstance(j, int) or j == i or not (0 <= j < n):
            return False
        if matching[j] != i or j not in graph[i]:
            return False
    return True
