"""Small independent references (no selfies imports): index code, tokeniser, element list, table keys."""
import re

# docs/source/derivation.rst "Index Symbols" table, in the v2 spelling of CHANGELOG v2.0.0
# ([BranchL_M] -> [Branch/=Branch/#Branch L])
INDEX = ["[C]", "[Ring1]", "[Ring2]", "[Branch1]", "[=Branch1]", "[#Branch1]", "[Branch2]", "[=Branch2]",
         "[#Branch2]", "[O]", "[N]", "[=N]", "[=C]", "[#C]", "[S]", "[P]"]
IDX = {s: i for i, s in enumerate(INDEX)}

ELEMENTS = set("""H He Li Be B C N O F Ne Na Mg Al Si P S Cl Ar K Ca Sc Ti V Cr Mn Fe Co Ni Cu Zn Ga Ge As Se Br
Kr Rb Sr Y Zr Nb Mo Tc Ru Rh Pd Ag Cd In Sn Sb Te I Xe Cs Ba Hf Ta W Re Os Ir Pt Au Hg Tl Pb Bi Po At Rn Fr Ra Rf Db Sg
Bh Hs Mt Ds Rg Cn Fl Lv La Ce Pr Nd Pm Sm Eu Gd Tb Dy Ho Er Tm Yb Lu Ac Th Pa U Np Pu Am Cm Bk Cf Es Fm Md No Lr""".split())
ORGANIC = {"B", "C", "N", "O", "S", "P", "F", "Cl", "Br", "I"}


def index_value(symbols):
    """decoder side: big-endian base 16, anything outside the sixteen (or a missing symbol, None) is 0"""
    q = 0
    for s in symbols:
        q = q * 16 + IDX.get(s, 0)
    return q


def index_symbols(n):
    """encoder side: shortest big-endian base-16 digit string, at least one digit"""
    if n < 0:
        raise ValueError(n)
    digits = []
    while True:
        digits.append(INDEX[n % 16])
        n //= 16
        if n == 0:
            break
    return digits[::-1]


_TOK = re.compile(r"\[[^\[\]]*\]|\.")


def tokenize(s):
    """well-formed SELFIES only: bracketed symbols (no brackets inside) and dots; else ValueError"""
    toks = _TOK.findall(s)
    if "".join(toks) != s:
        raise ValueError("not well formed")
    return toks


def is_wellformed_single_dots(s):
    """bracketed symbols optionally separated by single dots (C14's language): no leading dot,
    no doubled dot; a trailing dot after a symbol is allowed by the scanner and counted."""
    return re.fullmatch(r"(?:\[[^\[\]]*\]\.?)*", s) is not None


def table_key(elem, charge):
    return elem if charge == 0 else "%s%+d" % (elem, charge)


def capacity(table, elem, charge):
    k = table_key(elem, charge)
    return table[k] if k in table else table["?"]


# characters for edit-distance-1 neighbourhoods: all of ASCII (control characters included) and one representative of each
# kind of non-ASCII character a str method may treat specially (spaces of several kinds, line / paragraph separators, digits
# and digit-likes, a letter, a combining mark, BOM, an astral character, a lone surrogate)
EDIT_CHARS = [chr(c) for c in range(128)] + [
    "\x85", "\xa0", "\u1680", "\u2003", "\u2028", "\u2029", "\u202f", "\u3000", "\ufeff", "\u0661", "\uff15", "\u00b2",
    "\u2160", "\u00e9", "\u0301", "\u0130", "\U0001f600", "\ud800"]
