"""decoder-vs-reference-model comparison shared by C02, C13, C18 (and reused by C01/C07 for the reading part)."""
from mc.oracles import refmodel as R
from mc.oracles import smiread


def model_outcome(tokens, table, trace=None):
    try:
        return ("ok", R.decode(tokens, table, trace))
    except R.Reject as e:
        return ("rej", str(e))


def impl_outcome(sf, s, **kw):
    try:
        return ("ok", sf.decoder(s, **kw))
    except sf.DecoderError:
        return ("rej", None)
    except Exception as e:                       # noqa - anything else is itself a finding
        return ("exc", type(e).__name__)


def compare_mol(out, m):
    """out: SMILES string from the implementation, m: refmodel.Mol.  Returns None or (sig, detail)."""
    if out == "":
        if m.atoms:
            return "mol:atoms", "implementation returned '' but the model derives %d atoms" % len(m.atoms)
        return None
    try:
        atoms = smiread.read_smiles(out)
    except smiread.SmiError as e:
        return "output-unreadable:" + str(e).split(" ")[0], "output %r: %s" % (out, e)
    keys = [a.fullkey() for a in atoms]
    if keys != m.atoms:
        if [k[:2] + k[3:] for k in keys] == [k[:2] + k[3:] for k in m.atoms]:
            return "mol:chirality-tag", "output %r atoms %r model %r" % (out, keys, m.atoms)
        if len(keys) != len(m.atoms):
            return "mol:atom-count", "output %r has %d atoms, model %d" % (out, len(keys), len(m.atoms))
        return "mol:atoms", "output %r atoms %r model %r" % (out, keys, m.atoms)
    b = smiread.bonds_of(atoms)
    if b != m.bonds:
        if set(b) != set(m.bonds):
            return "mol:bonded-pairs", "output %r bonds %r model %r" % (out, sorted(b.items()), sorted(m.bonds.items()))
        return "mol:bond-orders", "output %r bonds %r model %r" % (out, sorted(b.items()), sorted(m.bonds.items()))
    w = R.written(m)
    for i, a in enumerate(atoms):
        g = [(e[1], (1 if e[2] is None else e[2]), e[3]) for e in a.nbrs]
        if g != w[i]:
            if [x[:2] for x in g] == [x[:2] for x in w[i]]:
                return "mol:stereo-marks", "atom %d of %r: written %r model %r" % (i, out, g, w[i])
            return "mol:neighbour-order", "atom %d of %r: written %r model %r" % (i, out, g, w[i])
    return None


def compare(sf, s, tokens, table, trace=None, **kw):
    """returns (verdict, impl_outcome) where verdict is None or (sig, detail)"""
    exp = model_outcome(tokens, table, trace)
    got = impl_outcome(sf, s, **kw)
    if got[0] == "exc":
        return ("escaped-exception:" + got[1], "decoder(%r) raised %s" % (s, got[1])), got
    if got[0] != exp[0]:
        if exp[0] == "rej":
            return ("accepts-outside-grammar", "decoder(%r) returned %r but the grammar rejects symbol %s"
                    % (s, got[1], exp[1])), got
        return ("rejects-inside-grammar", "decoder(%r) raised DecoderError but every reached symbol is in the "
                                          "grammar" % (s,)), got
    if got[0] == "rej":
        return None, got
    return compare_mol(got[1], exp[1]), got
