"""E4 - preemption-bounded exhaustive scheduler for real Python threads running real selfies calls.

sys.monitoring (PEP 669) LINE or INSTRUCTION events are enabled on every code object of the selfies package; the
callback counts the events of its own thread and parks the thread on a semaphore when its run length is used up, so
exactly one controlled thread runs at a time and a schedule is a list of (thread, run_length) segments.  Executions
always run to completion.  A preemption = stopping a thread that could still run.
"""
import sys
import threading
import types

mon = sys.monitoring
TOOL = 3
_INSTALLED = [None]


def selfies_codes():
    codes, seen = [], set()

    def collect(c):
        if id(c) in seen:
            return
        seen.add(id(c))
        codes.append(c)
        for k in c.co_consts:
            if isinstance(k, types.CodeType):
                collect(k)

    for name, m in list(sys.modules.items()):
        if m is None or not (name == "selfies" or name.startswith("selfies.")):
            continue
        for v in list(vars(m).values()):
            fs = []
            if isinstance(v, type) and getattr(v, "__module__", "").startswith("selfies"):
                for a in vars(v).values():
                    if isinstance(a, property):
                        a = a.fget
                    if isinstance(a, (staticmethod, classmethod)):
                        a = a.__func__
                    fs.append(a)
            else:
                fs.append(v)
            for f in fs:
                f = getattr(f, "__wrapped__", f)
                if isinstance(f, types.FunctionType) and f.__module__ and f.__module__.startswith("selfies"):
                    collect(f.__code__)
    return codes


class HangAbort(BaseException):
    pass


SEGMENT_TIMEOUT = 30.0


class Exec:
    """one controlled execution of `jobs` (callables), one thread each"""

    def __init__(self, jobs):
        self.jobs = jobs
        self.n = len(jobs)
        self.sem = [threading.Semaphore(0) for _ in range(self.n)]
        self.main = threading.Semaphore(0)
        self.tl = threading.local()
        self.steps = [0] * self.n
        self.budget = [0] * self.n          # events still allowed before parking (None = run to completion)
        self.done = [False] * self.n
        self.res = [None] * self.n
        self.abort = False

    def on_event(self):
        tid = getattr(self.tl, "tid", None)
        if tid is None:
            return
        if self.abort:
            raise HangAbort()       # unwinds a thread that did not finish within the per-segment watchdog
        self.steps[tid] += 1
        b = self.budget[tid]
        if b is None:
            return
        if b > 0:
            self.budget[tid] = b - 1
            return
        # park *before* executing this line / instruction
        self.main.release()
        self.sem[tid].acquire()

    def worker(self, i):
        self.tl.tid = i
        self.sem[i].acquire()
        try:
            self.res[i] = ("ok", self.jobs[i]())
        except BaseException as e:
            self.res[i] = ("exc", type(e).__name__, str(e)[:120])
        self.done[i] = True
        self.tl.tid = None
        self.main.release()

    def run(self, segments, tail_order=None):
        """segments: [(tid, k)] let tid run k more events (None = until it finishes); afterwards the unfinished
        threads run to completion in tail_order (default: ascending id)."""
        ths = [threading.Thread(target=self.worker, args=(i,), daemon=True) for i in range(self.n)]
        for t in ths:
            t.start()
        trace = []
        for tid, k in segments:
            if self.done[tid]:
                trace.append((tid, self.steps[tid], True))
                continue
            self.budget[tid] = k
            self.sem[tid].release()
            if not self.main.acquire(timeout=SEGMENT_TIMEOUT):
                return self._hang(ths, tid, trace)
            trace.append((tid, self.steps[tid], self.done[tid]))
        for tid in (tail_order or range(self.n)):
            if not self.done[tid]:
                self.budget[tid] = None
                self.sem[tid].release()
                if not self.main.acquire(timeout=SEGMENT_TIMEOUT):
                    return self._hang(ths, tid, trace)
        for t in ths:
            t.join(120)
        return self.res, tuple(self.steps), tuple(trace)


_CUR = [None]


def _cb(code, *a):
    e = _CUR[0]
    if e is not None:
        e.on_event()


def install(granularity="line"):
    """enable events on all selfies code objects (idempotent per granularity)"""
    if _INSTALLED[0] == granularity:
        return
    if _INSTALLED[0] is not None:
        uninstall()
    mon.use_tool_id(TOOL, "verif-sched")
    ev = mon.events.LINE if granularity == "line" else mon.events.INSTRUCTION
    for c in selfies_codes():
        mon.set_local_events(TOOL, c, ev)
    mon.register_callback(TOOL, ev, _cb)
    _INSTALLED[0] = granularity


def uninstall():
    if _INSTALLED[0] is None:
        return
    for c in selfies_codes():
        mon.set_local_events(TOOL, c, 0)
    mon.free_tool_id(TOOL)
    _INSTALLED[0] = None


def _hang(self, ths, tid, trace):
    """a controlled thread neither finished nor reached its next scheduling point: abort every thread (the monitoring
    callback raises inside them) and report the execution as hung"""
    self.abort = True
    for i in range(self.n):
        self.sem[i].release()
    for t in ths:
        t.join(SEGMENT_TIMEOUT)
    res = list(self.res)
    res[tid] = ("hang", "thread %d did not finish or yield within %.0f s" % (tid, SEGMENT_TIMEOUT))
    return res, tuple(self.steps), tuple(trace) + (("hang", tid),)


Exec._hang = _hang


def execute(jobs, segments, reset, tail_order=None):
    reset()
    e = Exec(jobs)
    _CUR[0] = e
    try:
        return e.run(segments, tail_order)
    finally:
        _CUR[0] = None
