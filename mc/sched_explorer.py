"""E4 - preemption-bounded exhaustive scheduler for real Python threads running real selfies calls.

sys.monitoring (PEP 669) LINE or INSTRUCTION events are enabled on every code object of the selfies package; the
callback counts the events of its own thread and parks the thread on a semaphore when its run length is used up, so
exactly one controlled thread runs at a time and a schedule is a list of (thread, run_length) segments.  Executions
always run to completion.  A preemption = stopping a thread that could still run.
"""
import sys
import threading
import types

mon = sys.monitoring
TOOL = 3
_INSTALLED = [None]


_GLOBALS_OF = {}      # id(code) -> the globals dict of the function it belongs to


def selfies_codes():
    codes, seen = [], set()

    def collect(c, g=None):
        if id(c) in seen:
            return
        seen.add(id(c))
        codes.append(c)
        if g is not None:
            _GLOBALS_OF[id(c)] = g
        for k in c.co_consts:
            if isinstance(k, types.CodeType):
                collect(k, g)

    for name, m in list(sys.modules.items()):
        if m is None or not (name == "selfies" or name.startswith("selfies.")):
            continue
        for v in list(vars(m).values()):
            fs = []
            if isinstance(v, type) and getattr(v, "__module__", "").startswith("selfies"):
                for a in vars(v).values():
                    if isinstance(a, property):
                        a = a.fget
                    if isinstance(a, (staticmethod, classmethod)):
                        a = a.__func__
                    fs.append(a)
            else:
                fs.append(v)
            for f in fs:
                f = getattr(f, "__wrapped__", f)
                if isinstance(f, types.FunctionType) and f.__module__ and f.__module__.startswith("selfies"):
                    collect(f.__code__, f.__globals__)
    return codes


class HangAbort(BaseException):
    pass


SEGMENT_TIMEOUT = 30.0


class Exec:
    """one controlled execution of `jobs` (callables), one thread each"""

    def __init__(self, jobs):
        self.jobs = jobs
        self.n = len(jobs)
        self.sem = [threading.Semaphore(0) for _ in range(self.n)]
        self.main = threading.Semaphore(0)
        self.tl = threading.local()
        self.steps = [0] * self.n
        self.budget = [0] * self.n          # events still allowed before parking (None = run to completion)
        self.done = [False] * self.n
        self.res = [None] * self.n
        self.abort = False

    def on_event(self):
        tid = getattr(self.tl, "tid", None)
        if tid is None:
            return
        if self.abort:
            raise HangAbort()       # unwinds a thread that did not finish within the per-segment watchdog
        self.steps[tid] += 1
        b = self.budget[tid]
        if b is None:
            return
        if b > 0:
            self.budget[tid] = b - 1
            return
        # park *before* executing this line / instruction
        self.main.release()
        self.sem[tid].acquire()

    def worker(self, i):
        self.tl.tid = i
        self.sem[i].acquire()
        try:
            self.res[i] = ("ok", self.jobs[i]())
        except BaseException as e:
            self.res[i] = ("exc", type(e).__name__, str(e)[:120])
        self.done[i] = True
        self.tl.tid = None
        self.main.release()

    def run(self, segments, tail_order=None):
        """segments: [(tid, k)] let tid run k more events (None = until it finishes); afterwards the unfinished
        threads run to completion in tail_order (default: ascending id)."""
        ths = [threading.Thread(target=self.worker, args=(i,), daemon=True) for i in range(self.n)]
        for t in ths:
            t.start()
        trace = []
        for tid, k in segments:
            if self.done[tid]:
                trace.append((tid, self.steps[tid], True))
                continue
            self.budget[tid] = k
            self.sem[tid].release()
            if not self.main.acquire(timeout=SEGMENT_TIMEOUT):
                return self._hang(ths, tid, trace)
            trace.append((tid, self.steps[tid], self.done[tid]))
        for tid in (tail_order or range(self.n)):
            if not self.done[tid]:
                self.budget[tid] = None
                self.sem[tid].release()
                if not self.main.acquire(timeout=SEGMENT_TIMEOUT):
                    return self._hang(ths, tid, trace)
        for t in ths:
            t.join(120)
        return self.res, tuple(self.steps), tuple(trace)


_CUR = [None]
_POINTS = [None]      # granularity "shared": the set of (code, line) that touch state shared between calls


def _cb(code, *a):
    e = _CUR[0]
    if e is not None:
        if _POINTS[0] is not None and (code, a[0]) not in _POINTS[0]:
            return
        e.on_event()


def shared_points():
    """(code, line) pairs of selfies code that read or write state shared between calls: a partial-order reduction of the
    LINE scheduler - a thread switch anywhere else commutes with the other thread's steps, so only these lines need to be
    scheduling points.  Shared state = (a) a module global some function rebinds (STORE_GLOBAL), also when read through its
    module (`mod.name`); (b) a module-level container that some selfies code mutates (subscript store / delete or a call of a
    mutating method on the global, on the same line); (c) lru_cache wrappers, called by name or reached as a method /
    property of a class; (d) a module-level instance of a user class; (e) a class-level container reached through an
    instance.  Containers nobody mutates (the constant tables) are read-only and do not count.  The reduction is an
    approximation (aliases of a global are not tracked); the unreduced LINE / INSTRUCTION scopes do not rely on it."""
    import dis
    import collections
    codes = selfies_codes()
    MUT = {"append", "add", "update", "pop", "clear", "setdefault", "extend", "discard", "remove", "insert", "popitem",
           "appendleft", "popleft", "sort", "reverse", "__setitem__", "__delitem__", "cache_clear"}
    rebound, mutated = set(), set()
    for c in codes:
        g = _GLOBALS_OF.get(id(c))
        by_line = collections.defaultdict(list)
        line = None
        for ins in dis.get_instructions(c):
            if ins.starts_line is not None:
                line = ins.starts_line if not isinstance(ins.starts_line, bool) else ins.positions.lineno
            by_line[line].append(ins)
            if ins.opname in ("STORE_GLOBAL", "DELETE_GLOBAL"):
                rebound.add((id(g), ins.argval))
        for line, inss in by_line.items():
            names = [i.argval for i in inss if i.opname in ("LOAD_GLOBAL", "LOAD_NAME")]
            writes = any(i.opname in ("STORE_SUBSCR", "DELETE_SUBSCR") or
                         (i.opname in ("LOAD_ATTR", "LOAD_METHOD") and i.argval in MUT) for i in inss)
            if writes:
                for nm in names:
                    mutated.add((id(g), nm))
    class_attrs = set()
    for name, m in list(sys.modules.items()):
        if m is None or not (name == "selfies" or name.startswith("selfies.")):
            continue
        for v in list(vars(m).values()):
            if isinstance(v, type) and getattr(v, "__module__", "").startswith("selfies"):
                for an, av in vars(v).items():
                    if isinstance(av, (dict, list, set, bytearray, collections.deque)):
                        class_attrs.add(an)
                    f = av.fget if isinstance(av, property) else av
                    if hasattr(f, "cache_info"):
                        class_attrs.add(an)

    def shared_value(g, nm):
        if (id(g), nm) in rebound:
            return True
        if nm not in g:
            return False
        v = g[nm]
        if hasattr(v, "cache_info"):
            return True
        if isinstance(v, (dict, list, set, bytearray, collections.deque)):
            return (id(g), nm) in mutated
        if isinstance(v, (types.ModuleType, types.FunctionType, types.BuiltinFunctionType, type, int, float, str, bytes, tuple,
                          frozenset, bool, type(None), __import__("re").Pattern)):
            return False
        return hasattr(v, "__dict__")          # an instance of some class kept at module level

    pts = set()
    for c in codes:
        g = _GLOBALS_OF.get(id(c))
        line = None
        prev_mod = None
        for ins in dis.get_instructions(c):
            if ins.starts_line is not None:
                line = ins.starts_line if not isinstance(ins.starts_line, bool) else ins.positions.lineno
            hit = False
            if ins.opname in ("STORE_GLOBAL", "DELETE_GLOBAL"):
                hit = True
            elif ins.opname in ("LOAD_GLOBAL", "LOAD_NAME") and g is not None:
                hit = shared_value(g, ins.argval)
                v = g.get(ins.argval)
                prev_mod = v if isinstance(v, types.ModuleType) and v.__name__.startswith("selfies") else None
                if hit:
                    prev_mod = None
                if line is not None and hit:
                    pts.add((c, line))
                continue
            elif ins.opname in ("LOAD_ATTR", "STORE_ATTR", "LOAD_METHOD"):
                if ins.argval in class_attrs:
                    hit = True
                elif prev_mod is not None and shared_value(vars(prev_mod), ins.argval):
                    hit = True
            prev_mod = None
            if hit and line is not None:
                pts.add((c, line))
    return pts


def install(granularity="line"):
    """enable events on all selfies code objects (idempotent per granularity)"""
    if _INSTALLED[0] == granularity:
        return
    if _INSTALLED[0] is not None:
        uninstall()
    mon.use_tool_id(TOOL, "verif-sched")
    ev = mon.events.INSTRUCTION if granularity == "instruction" else mon.events.LINE
    _POINTS[0] = shared_points() if granularity == "shared" else None
    for c in selfies_codes():
        mon.set_local_events(TOOL, c, ev)
    mon.register_callback(TOOL, ev, _cb)
    _INSTALLED[0] = granularity


def uninstall():
    if _INSTALLED[0] is None:
        return
    for c in selfies_codes():
        mon.set_local_events(TOOL, c, 0)
    mon.free_tool_id(TOOL)
    _INSTALLED[0] = None
    _POINTS[0] = None


def _hang(self, ths, tid, trace):
    """a controlled thread neither finished nor reached its next scheduling point: abort every thread (the monitoring
    callback raises inside them) and report the execution as hung"""
    self.abort = True
    for i in range(self.n):
        self.sem[i].release()
    for t in ths:
        t.join(SEGMENT_TIMEOUT)
    res = list(self.res)
    res[tid] = ("hang", "thread %d did not finish or yield within %.0f s" % (tid, SEGMENT_TIMEOUT))
    return res, tuple(self.steps), tuple(trace) + (("hang", tid),)


Exec._hang = _hang


def execute(jobs, segments, reset, tail_order=None):
    reset()
    e = Exec(jobs)
    _CUR[0] = e
    try:
        return e.run(segments, tail_order)
    finally:
        _CUR[0] = None
