"""constraint-table family T* used across properties (DESIGN.md section 2)"""

CUSTOM = {
    "zero": {"?": 0},
    "mix": {"C": 4, "N": 3, "O": 1, "F": 0, "S": 9, "?": 2},
    "big": {"C": 12, "N": 1, "?": 5},
}
PRESET_NAMES = ("default", "octet_rule", "hypervalent")


def set_table(sf, name):
    """install table `name` in the library and return the dict the oracles should use.
    The oracle side reads the table back through the public getter (C12 checks getter == setter)."""
    # names and keys are passed as freshly built str objects (equal to, never identical with, a literal inside the library)
    if name in PRESET_NAMES:
        sf.set_semantic_constraints("".join(list(name)))
    else:
        sf.set_semantic_constraints({"".join(list(k)): v for k, v in CUSTOM[name].items()})
        got = sf.get_semantic_constraints()
        if got != CUSTOM[name]:
            raise RuntimeError("HARNESS: table %s not installed faithfully (C12's business): %r" % (name, got))
        return dict(CUSTOM[name])
    return dict(sf.get_semantic_constraints())


ALL = PRESET_NAMES + tuple(CUSTOM)
