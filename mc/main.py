import argparse
import os
import sys

from mc import runner


def main():
    ap = argparse.ArgumentParser()
    ap.add_argument("prop", nargs="?")
    ap.add_argument("--tier", default=os.environ.get("VERIF_TIER", "quick"), choices=["quick", "thorough"])
    ap.add_argument("--seed", type=int, default=int(os.environ.get("VERIF_SEED", "0") or 0))
    ap.add_argument("--scope", action="append")
    ap.add_argument("--replay")
    a = ap.parse_args()
    if a.replay:
        sys.exit(runner.run_replay(a.replay))
    if not a.prop:
        ap.error("property id required")
    mod = "mc.props." + a.prop.lower()
    sys.exit(runner.run_property(mod, a.tier, a.seed, a.scope))


if __name__ == "__main__":
    main()
