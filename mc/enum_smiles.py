"""E2 - written-form SMILES generator.

G1: every *written form* with exactly n atoms:
    shape      = ordered rooted tree on the atom sequence 0..n-1 in written (DFS pre-) order, given as a parent
                 vector (parent[i] on the current path root..i-1); the children of an atom are written in index
                 order, the last child is the chain continuation, the others are parenthesised   [Catalan(n-1)]
    ring bonds = every set of <= r pairs of atoms that are not tree-adjacent
    digits     = every order of the ring-bond digits written at an atom
    labels     = a labelling scheme: fresh ascending / descending / two-digit %nn / lowest-free reuse
    atom and bond spellings come from per-property palettes.
G2: every DFS spelling of one molecular graph (every start atom x every order of visiting unvisited neighbours),
    each with the permutation back to the graph's own numbering.
"""
import itertools


def parent_vectors(n):
    """all parent vectors that are DFS pre-orders (ordered rooted trees), Catalan(n-1) many"""
    def rec(i, par, path):
        if i == n:
            yield tuple(par)
            return
        for k in range(len(path)):
            p = path[k]
            yield from rec(i + 1, par + [p], path[:k + 1] + [i])
    if n == 0:
        return
    yield from rec(1, [None], [0])


def ring_sets(n, par, rmax, rmin=0):
    tree = {(par[i], i) for i in range(1, n)}
    pairs = [(a, b) for a in range(n) for b in range(a + 1, n) if (a, b) not in tree]
    for r in range(rmin, rmax + 1):
        yield from itertools.combinations(pairs, r)


def label_schemes(rings, scheme):
    """rings in opening order -> {ring: label}"""
    lab = {}
    if scheme == "fresh":
        for k, r in enumerate(rings):
            lab[r] = k + 1
    elif scheme == "desc":
        for k, r in enumerate(rings):
            lab[r] = len(rings) - k
    elif scheme == "two":
        for k, r in enumerate(rings):
            lab[r] = 10 + k
    elif scheme == "reuse":
        open_until = {}
        for r in rings:
            a, b = r
            used = {l for l, (ra, rb) in open_until.items() if rb >= a}
            l = 1
            while l in used:
                l += 1
            lab[r] = l
            open_until[l] = r
    else:
        raise ValueError(scheme)
    return lab


def lab_str(l):
    return str(l) if l < 10 else "%%%d" % l


def write(n, par, rings, atom_tok, bond_tok, ring_tok=None, scheme="fresh", digit_perm=None, digit_slot=None, paren_last=()):
    """atom_tok[i]: atom spelling; bond_tok[i]: symbol written for the bond parent->i ('' = none);
    ring_tok[(a,b)] = (symbol at a, symbol at b); digit_perm[i] = order of the digits at atom i;
    digit_slot[i] = k writes the ring digits of atom i after its k-th parenthesised branch (non-standard spelling
    that selfies.encoder accepts; 0 / absent = standard position directly after the atom);
    paren_last = atoms whose last child is parenthesised too (trailing branch, e.g. C(C)(C) - legal OpenSMILES)"""
    children = [[] for _ in range(n)]
    for i in range(1, n):
        children[par[i]].append(i)
    rings = sorted(rings)
    at = [[] for _ in range(n)]
    for r in rings:
        at[r[0]].append(r)
        at[r[1]].append(r)
    order_at = []
    for i in range(n):
        lst = at[i]
        if digit_perm and i in digit_perm:
            lst = [lst[k] for k in digit_perm[i]]
        order_at.append(lst)
    opening = []
    for i in range(n):
        for r in order_at[i]:
            if r[0] == i:
                opening.append(r)
    lab = label_schemes(opening, scheme)
    out = []
    # iterative emission (deep chains must not hit the recursion limit of the harness itself)
    stack = [("atom", 0)]
    while stack:
        kind, x = stack.pop()
        if kind == "text":
            out.append(x)
            continue
        i = x
        out.append(atom_tok[i])
        digits = []
        for r in order_at[i]:
            sym = ""
            if ring_tok and r in ring_tok:
                sym = ring_tok[r][0 if r[0] == i else 1]
            digits.append(sym + lab_str(lab[r]))
        ch = children[i]
        slot = (digit_slot or {}).get(i, 0)
        nparen = len(ch) if i in paren_last else max(0, len(ch) - 1)
        slot = min(slot, nparen)
        todo = []
        if slot == 0:
            out.extend(digits)
        for k, c in enumerate(ch):
            last = (k == len(ch) - 1) and i not in paren_last
            if not last:
                todo.append(("text", "("))
            todo.append(("text", bond_tok[c]))
            todo.append(("atom", c))
            if not last:
                todo.append(("text", ")"))
                if slot == k + 1:
                    todo.extend(("text", d) for d in digits)
        stack.extend(reversed(todo))
    return "".join(out)


def digit_orders(rings, all_orders=True):
    at = {}
    for r in rings:
        at.setdefault(r[0], []).append(r)
        at.setdefault(r[1], []).append(r)
    multi = [i for i, l in sorted(at.items()) if len(l) > 1]
    if all_orders and multi:
        perm_lists = [list(itertools.permutations(range(len(at[i])))) for i in multi]
        return [dict(zip(multi, combo)) for combo in itertools.product(*perm_lists)]
    return [None]


def g1_shapes(n, rmax, rmin=0):
    for par in parent_vectors(n):
        for rings in ring_sets(n, par, rmax, rmin):
            yield par, rings


def g1(n, rmax, schemes=("fresh",), all_digit_orders=True, rmin=0):
    """yield (par, rings, scheme, digit_perm) for exactly n atoms"""
    for par, rings in g1_shapes(n, rmax, rmin):
        for dp in digit_orders(rings, all_digit_orders):
            for sc in schemes:
                if sc == "reuse" and dp is not None:
                    continue    # lowest-free reuse is only well defined for the canonical digit order
                if not rings and sc != schemes[0]:
                    continue
                yield par, rings, sc, dp


def lenient_variants(n, par, rings, max_trailing=3):
    """non-standard spellings selfies.encoder accepts: yields (digit_slot, paren_last) for every subset (<= max_trailing
    atoms) of branching atoms whose last child is parenthesised too, and every placement of each atom's ring digits
    after its k-th parenthesised branch; the standard spelling ({}, set()) is not yielded"""
    nch = [0] * n
    for i in range(1, n):
        nch[par[i]] += 1
    branching = [i for i in range(n) if nch[i] >= 1]
    with_digits = sorted({a for rg in rings for a in rg})
    for k in range(0, min(len(branching), max_trailing) + 1):
        for pl in itertools.combinations(branching, k):
            pl = set(pl)
            slots = []
            for a in with_digits:
                npar = nch[a] if a in pl else max(0, nch[a] - 1)
                slots.append(range(0, npar + 1))
            for combo in itertools.product(*slots):
                ds = {a: s for a, s in zip(with_digits, combo) if s}
                if not pl and not ds:
                    continue
                yield ds, pl


def degrees(n, par, rings):
    deg = [0] * n
    for i in range(1, n):
        deg[i] += 1
        deg[par[i]] += 1
    for a, b in rings:
        deg[a] += 1
        deg[b] += 1
    return deg


def g2(adj, start):
    """all DFS traversals of a connected graph from start: yields (order list, parent dict)"""
    n = len(adj)

    def rec(order, parent, stack, visited):
        if not stack:
            if len(order) == n:
                yield list(order), dict(parent)
            return
        a = stack[-1]
        cands = [b for b in adj[a] if b not in visited]
        if not cands:
            yield from rec(order, parent, stack[:-1], visited)
            return
        for b in cands:
            parent[b] = a
            yield from rec(order + [b], parent, stack + [b], visited | {b})
            del parent[b]
    yield from rec([start], {start: None}, [start], {start})


def spelling_from_traversal(adj, order, parent):
    """(par vector, rings) in the numbering of the traversal; order[k] = original atom written k-th"""
    idx = {a: i for i, a in enumerate(order)}
    n = len(order)
    par = [None] * n
    tree = set()
    for a, p in parent.items():
        if p is not None:
            par[idx[a]] = idx[p]
            tree.add((min(idx[a], idx[p]), max(idx[a], idx[p])))
    allb = {(min(idx[a], idx[b]), max(idx[a], idx[b])) for a in range(n) for b in adj[a]}
    return par, sorted(allb - tree)
