"""Prototype: written-form SMILES generator.

Shape = (parent[], ring pairs) over atoms 0..n-1 in written (DFS pre-) order.
  parent[i] < i ; children of a node are written in increasing index order, the last one is the
  chain continuation, the others parenthesised.  A parent vector is a valid DFS pre-order iff
  the "current path" discipline holds: parent[i] must be on the path root..(i-1).
"""
import itertools


def parent_vectors(n):
    """all parent vectors that are DFS pre-orders (ordered rooted trees), Catalan(n-1) many"""
    def rec(i, par, path):
        if i == n:
            yield tuple(par)
            return
        # parent of i must be on current path (ancestors of i-1 incl. itself)
        for k in range(len(path)):
            p = path[k]
            yield from rec(i + 1, par + [p], path[:k + 1] + [i])
    if n == 0:
        return
    yield from rec(1, [None], [0])


def ring_sets(n, par, rmax):
    tree = {(par[i], i) for i in range(1, n)}
    pairs = [(a, b) for a in range(n) for b in range(a + 1, n) if (a, b) not in tree]
    for r in range(0, rmax + 1):
        yield from itertools.combinations(pairs, r)


def label_schemes(rings, n, scheme):
    """assign a label to each ring (a<b) given writing order. returns dict ring->label"""
    # opening order: by a, then by position in digit order at a (handled by caller giving rings in opening order)
    lab = {}
    if scheme == "fresh":
        for k, r in enumerate(rings):
            lab[r] = k + 1
    elif scheme == "desc":
        for k, r in enumerate(rings):
            lab[r] = len(rings) - k
    elif scheme == "two":
        for k, r in enumerate(rings):
            lab[r] = 10 + k
    elif scheme == "reuse":
        # lowest free label at opening time; ring (a,b) is free again after atom b
        open_until = {}
        for r in rings:
            a, b = r
            used = {l for l, (ra, rb) in open_until.items() if rb >= a}  # still open at a (closing at a counts as used: conservative)
            l = 1
            while l in used:
                l += 1
            lab[r] = l
            open_until[l] = r
    return lab


def lab_str(l):
    return str(l) if l < 10 else "%%%d" % l


def write(n, par, rings, atom_tok, bond_tok, ring_tok=None, scheme="fresh", digit_perm=None):
    """atom_tok[i] string; bond_tok[i] symbol for bond parent->i ('' implicit);
    ring_tok[(a,b)] = (sym at a, sym at b); digit_perm[i] = permutation function/list for digits at atom i"""
    children = [[] for _ in range(n)]
    for i in range(1, n):
        children[par[i]].append(i)
    rings = sorted(rings)
    # digits at each atom: closes (b==i) and opens (a==i)
    at = [[] for _ in range(n)]
    for r in rings:
        at[r[0]].append(r)
        at[r[1]].append(r)
    order_at = []
    for i in range(n):
        lst = at[i]
        if digit_perm and i in digit_perm:
            lst = [lst[k] for k in digit_perm[i]]
        order_at.append(lst)
    # opening order for labels
    opening = []
    for i in range(n):
        for r in order_at[i]:
            if r[0] == i:
                opening.append(r)
    lab = label_schemes(opening, n, scheme)
    out = []

    def emit(i):
        out.append(atom_tok[i])
        for r in order_at[i]:
            sym = ""
            if ring_tok and r in ring_tok:
                sym = ring_tok[r][0 if r[0] == i else 1]
            out.append(sym + lab_str(lab[r]))
        ch = children[i]
        for k, c in enumerate(ch):
            last = (k == len(ch) - 1)
            if not last:
                out.append("(")
            out.append(bond_tok[c])
            emit(c)
            if not last:
                out.append(")")
    emit(0)
    return "".join(out)


def g1(n, rmax, schemes=("fresh",), all_digit_orders=True):
    """yield (par, rings, scheme, digit_perm) for exactly n atoms"""
    for par in parent_vectors(n):
        for rings in ring_sets(n, par, rmax):
            at = {}
            for r in rings:
                at.setdefault(r[0], []).append(r)
                at.setdefault(r[1], []).append(r)
            multi = [i for i, l in at.items() if len(l) > 1]
            if all_digit_orders and multi:
                perm_lists = [list(itertools.permutations(range(len(at[i])))) for i in multi]
                dps = [dict(zip(multi, combo)) for combo in itertools.product(*perm_lists)]
            else:
                dps = [None]
            for dp in dps:
                for sc in schemes:
                    if sc == "reuse" and dp is not None:
                        continue  # reuse scheme only with canonical digit order (label validity simple there)
                    yield par, rings, sc, dp


def g2(adj, start):
    """all DFS traversals of a connected graph from start: yields (order list, parent dict)"""
    n = len(adj)

    def rec(order, parent, stack, visited):
        if not stack:
            if len(order) == n:
                yield list(order), dict(parent)
            return
        a = stack[-1]
        cands = [b for b in adj[a] if b not in visited]
        if not cands:
            yield from rec(order, parent, stack[:-1], visited)
            return
        for b in cands:
            parent[b] = a
            yield from rec(order + [b], parent, stack + [b], visited | {b})
            del parent[b]
    yield from rec([start], {start: None}, [start], {start})
