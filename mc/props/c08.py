"""C08 - decoder is total: returns or raises DecoderError, always terminates, leaves the constraint state alone.

E1 over a *piece* alphabet that mixes well-formed symbols with malformed material (so the enumerated strings are
arbitrary text, not SELFIES) x the four (compatible, attribute) flag combinations, plus complete parametric families
in the unbounded dimensions (nesting depth, chain length, number of fragments).
"""
import functools
import signal

from mc import enum_strings as E1
from mc.runner import Result, h64

PROPERTY = "C08"
OWN_WATCHDOG = True      # per-call / per-shard watchdogs below (SIGALRM is used by this module itself)
RULE = ("every concatenation of <= L pieces from the piece alphabet (prefix tree) x 4 flag combinations, and every "
        "member of each parametric family; non-trivial = distinct (flags, outcome class, output) triples")
ASSUMPTIONS = [
    "every worker first decodes every piece under the table {'?': 12} and then installs the default table, so totality is "
    "checked in a library with warm caches filled under a different table (C11 explores histories systematically)",
    "non-termination is observed as 'no result within a watchdog of 5 s + 1 s per 50 input characters'",
    "the constraint state is observed through get_semantic_constraints() after every call and through the current "
    "table, the presets and the robust alphabet once per shard",
]

PIECES = ["[C]", "[=O]", "[Branch1]", "[Ring1]", "[epsilon]", "[nop]", ".",
          "[", "]", "[[", "[C", "C]", "..", " ", "\n", "[]", "[.]", "[nop", "x", "[Branch4]", "[C+0]", "[CH10]",
          "[٣C]", "[C@@@]", "[Branch1_1]", "[Expl=Ring1]", "[C@@Hexpl]", "expl]", "_1]", "[²Cexpl]", "[OH3]", "[CH5]", "[CH4]"]
PIECES2 = ["{", "}", "[{}]", "[{0}]", "[%s]", "%", "[CH4]", "[OH2]", "[N]", "[#Branch2]", "[=Ring3]", "[-/Ring1]", "[/C]", "[", "]", "[expl]", "[=expl]", "[Hexpl]", "ch1]",
           "ng1]", "[epsilon", "eps", "[\x00]", "[\ud800]", "[C-٣]", "[999999999999999999999C]", "[CH٣]",
           "[C+999999999999999999999]", "\t", "[=]", "[#]", "[/]"]
ALPH = {"pieces": PIECES, "pieces2": PIECES2}
FLAGS = [(c, a) for c in (False, True) for a in (False, True)]


def misc_chars():
    from mc.oracles.misc import EDIT_CHARS
    return EDIT_CHARS


@functools.lru_cache(maxsize=None)
def families(tier):
    thorough = tier == "thorough"
    D = 1200
    fams = []
    if thorough:
        depths = list(range(1, D + 1))
    else:
        depths = sorted(set(range(1, 65)) | set(range(64, D + 1, 16)) | set(range(900, 1041)) | {D})
    fams.append(("nest-Branch3", [("d=%d" % d, "[C][Branch3][P][P][P]" * d + "[C]") for d in depths]))
    fams.append(("nest-#Branch3-S", [("d=%d" % d, "[S][#Branch3][P][P][P]" * d + "[=O]") for d in range(1, D + 1, 7)]))
    fams.append(("nest-legacy", [("d=%d" % d, "[C][Branch3_1][P][P][P]" * d + "[C]") for d in range(1, D + 1, 13)]))
    ns = [1, 10, 100, 1000, 3000] + ([10000, 20000] if thorough else [])
    fams.append(("chain", [("n=%d" % n, "[C]" * n) for n in ns]))
    fams.append(("chain-rings", [("n=%d" % n, "[C][C][C][Ring1][Ring1]" * n) for n in ns[:4]]))
    fams.append(("fragments", [("f=%d" % f, ".".join(["[C][O]"] * f)) for f in range(1, 201)]))
    fams.append(("dots", [("f=%d" % f, "." * f) for f in range(1, 201, 3)]))
    fams.append(("open-brackets", [("n=%d" % n, "[" * n) for n in (1, 2, 10, 1000, 100000)]))
    fams.append(("long-symbol", [("n=%d" % n, "[" + "C" * n + "]") for n in (1, 10, 1000, 100000)]))
    digs = (1, 10, 100, 1000, 4299, 4300, 4301, 5000, 100000)
    fams.append(("long-digit-run", [("%s n=%d" % (k, n), t % ("1" * n)) for n in digs for k, t in
                                    (("isotope", "[%sC]"), ("charge", "[C+%s]"), ("charge-in-chain", "[C][N-%s][O]"),
                                     ("isotope-expl", "[%sCexpl]"), ("Hcount", "[CH%s]"), ("index-ctx", "[C][Ring1][%sC]"))]))
    from mc.props import c01
    for fname, table, members in c01.families(tier):
        if table == "default":      # every family of C01 under the default table (many rings open at once, nesting, ...)
            fams.append(("C01:" + fname, list(members)))
    # edit-distance-1 neighbourhood of well-formed strings: every ASCII character (and 18 kinds of non-ASCII character) inserted at, or replacing, every
    # position of a seed (symbol classification is done by hand-written patterns and suffix tests: one stray character
    # must lead to a result or a DecoderError, never anything else)
    seeds = ["[C][=C][C]", "[C][C@@H1][N+1]", "[C][C][Ring1][C]", "[C][=Branch2][C][C][O]", "[C][-/Ring1][C][F]",
             "[S][epsilon][nop][O]", "[C][13CH2-1][#N]", "[C][Branch1_2][C][Cexpl][Expl=Ring1][C]"]
    chars = misc_chars()
    for seed in seeds:
        mem = []
        for i in range(len(seed) + 1):
            for ch in chars:
                mem.append(("insert %r at %d" % (ch, i), seed[:i] + ch + seed[i:]))
                if i < len(seed) and ch != seed[i]:
                    mem.append(("replace %d by %r" % (i, ch), seed[:i] + ch + seed[i + 1:]))
            if i < len(seed):
                mem.append(("delete %d" % i, seed[:i] + seed[i + 1:]))
        fams.append(("edit1:" + seed, mem))
    from mc.oracles.misc import ELEMENTS
    mem = []
    for el in sorted(ELEMENTS):
        for t in ("[%s]", "[C][=%s][C]", "[C][%s@@H1][C]", "[%s+1][#C]", "[C][Ring1][%s]", "[C][%sexpl]", "[C][:%s]", "[%s-1]", "[C][/%s][=C]"):
            mem.append((t % el, t % el))
            mem.append((t % el.lower(), t % el.lower()))
    fams.append(("every-element", mem))
    # runs of one repeated character in every field of a symbol, each ending in a character that cannot finish the symbol
    # (nested quantifiers in a hand-written pattern make matching time exponential in the length of such a run)
    runs = []
    for ch in "+-@H:0#=/\\%.()1Cc*$":
        for n in (1, 2, 5, 10, 15, 20, 24, 28, 32, 40, 100, 1000):
            for t in ("[C][N%s?expl][C]", "[C][N%sexpl][C]", "[N%s]", "[N%s?]", "[%sC]", "[C][=C%s", "%s[C]", "[C][Branch1_%s][C]", "[C@%s][C]"):
                runs.append(("%r x %d in %s" % (ch, n, t), t % (ch * n)))
    fams.append(("long-runs", runs))
    fams.append(("oversized-index", [("n=%d" % n, "[C][C]" + "[Ring3][P][P][P]" * n) for n in (1, 5, 50, 500)]))
    return fams


def plan(tier, seed):
    thorough = tier == "thorough"
    grid = [("pieces", 5 if thorough else 4), ("pieces2", 5 if thorough else 4)]
    scopes, tasks = [], []
    for an, L in grid:
        name = "%s/L%d" % (an, L)
        scopes.append({"name": name, "alphabet": ALPH[an], "bound_L": L, "flags": "all 4 (compatible, attribute)",
                       "tree_size": E1.tree_size(len(ALPH[an]), L)})
        for sh in E1.shard_prefixes(ALPH[an], L, 2):
            tasks.append((name, ("strings", an, L, sh)))
    for fi, (fname, members) in enumerate(families(tier)):
        name = "family/" + fname
        scopes.append({"name": name, "members": len(members), "range": "%s .. %s" % (members[0][0], members[-1][0])})
        step = 10 if len(members) < 500 else 200
        for k in range(0, len(members), step):
            tasks.append((name, ("family", fi, k, k + step, tier)))
    return {"scopes": scopes, "tasks": tasks, "bounds": {"nesting_max": 1200, "fragments_max": 200}}


_SF = None
_TABLE0 = None


_TIMEOUTS = [0]          # a shard stops after 3 watchdog expiries (each costs >= 20 s); the rest is reported as a cap
_SHARD_TIMER = [False]   # short strings of a shard share one watchdog (150 s per shard) instead of one timer per call


class Timeout(BaseException):
    pass


def _alarm(signum, frame):
    raise Timeout()


def worker_init():
    global _SF, _TABLE0
    import selfies
    _SF = selfies
    # the strings are explored in a library that has a *history*: every piece was first decoded under a very
    # relaxed table (filling the symbol and capacity caches), then the default table was installed
    _SF.set_semantic_constraints({"?": 12})
    for pcs in ALPH.values():
        for x in pcs:
            for flags in ((False,), (True,)):
                try:
                    _SF.decoder("[C]" + x, compatible=flags[0])
                except Exception:
                    pass
    _SF.set_semantic_constraints("default")
    _TABLE0 = _SF.get_semantic_constraints()
    signal.signal(signal.SIGALRM, _alarm)


def config_snapshot():
    """the observable constraint configuration (behavioural, so internal memo tables of a refactored library do not matter)"""
    return (_SF.get_semantic_constraints(), [_SF.get_preset_constraints(n) for n in ("default", "octet_rule", "hypervalent")],
            sorted(_SF.get_semantic_robust_alphabet()))


def innermost_selfies_frame(e):
    import traceback
    fr = [f for f in traceback.extract_tb(e.__traceback__) if "/selfies/" in f.filename]
    return fr[-1].name if fr else "?"


def call(s, compatible, attribute):
    """returns (class, detail, output)"""
    budget = 5 + len(s) / 50.0
    timed = True      # one interval timer per call: 5 s + 1 s per 50 characters
    if timed:
        signal.setitimer(signal.ITIMER_REAL, budget)
    try:
        try:
            res = _SF.decoder(s, compatible=compatible, attribute=attribute)
        finally:
            if timed:
                signal.setitimer(signal.ITIMER_REAL, 0)
    except _SF.DecoderError:
        return "DecoderError", None, None
    except Timeout:
        return "timeout", "no result within %.0f s" % budget, None
    except RecursionError as e:
        return "escaped:RecursionError", "RecursionError in %s" % innermost_selfies_frame(e), None
    except BaseException as e:
        return "escaped:%s@%s" % (type(e).__name__, innermost_selfies_frame(e)), repr(e)[:200], None
    if attribute:
        ok = (isinstance(res, tuple) and len(res) == 2 and isinstance(res[0], str) and isinstance(res[1], list))
        return ("ok" if ok else "bad-return-type"), repr(type(res)), (res[0] if ok else None)
    ok = isinstance(res, str)
    return ("ok" if ok else "bad-return-type"), repr(type(res)), (res if ok else None)


def check(s, r, extra=None):
    r.states += 1
    allok = True
    for (c, a) in FLAGS:
        r.evaluations += 1
        r.transitions += 1
        cls, detail, outp = call(s, c, a)
        if cls == "timeout":
            _TIMEOUTS[0] += 1
        if cls not in ("ok", "DecoderError"):
            allok = False
            case = {"input": s if len(s) <= 400 else None, "compatible": c, "attribute": a}
            case.update(extra or {})
            r.violation(cls, case, "decoder(%r%s, compatible=%s, attribute=%s): %s" % (
                s[:80], "..." if len(s) > 80 else "", c, a, detail))
        else:
            r.nontrivial.add(h64((c, a, cls, outp)))
        now = _SF.get_semantic_constraints()
        if now != _TABLE0:
            allok = False
            r.violation("constraints-changed", {"input": s[:400], "compatible": c, "attribute": a},
                        "get_semantic_constraints() changed across decoder call: %r" % (now,))
            _SF.set_semantic_constraints("default")
    if allok:
        r.validated += 1


def run(task):
    scope, arg = task
    r = Result()
    fp0 = config_snapshot()
    if arg[0] == "strings":
        _, an, L, sh = arg
        w = None
        _SHARD_TIMER[0] = True
        try:
            _TIMEOUTS[0] = 0
            for w in E1.nodes(ALPH[an], L, sh):
                check("".join(w), r)
                if _TIMEOUTS[0] >= 3:
                    r.caps.append("shard %r stopped after 3 watchdog expiries" % (sh,))
                    break
        except Timeout:
            r.violation("timeout", {"input": "".join(w), "compatible": None, "attribute": None},
                        "shard watchdog (150 s) expired while decoding %r" % ("".join(w),))
        finally:
            signal.setitimer(signal.ITIMER_REAL, 0)
            _SHARD_TIMER[0] = False
        if w is not None:
            r.sample({"scope": scope, "input": "".join(w)}, 1)
    else:
        _, fi, lo, hi, tier = arg
        fname, members = families(tier)[fi]
        _TIMEOUTS[0] = 0
        for label, s in members[lo:hi]:
            check(s, r, {"family": fname, "member": label})
            if _TIMEOUTS[0] >= 3:
                r.caps.append("shard of family %s stopped after 3 watchdog expiries" % fname)
                break
        if lo == 0:
            r.sample({"scope": scope, "member": members[0][0], "input": members[0][1][:100]})
    if config_snapshot() != fp0:
        r.violation("constraint-configuration-changed", {"scope": scope, "shard": repr(arg)[:200]},
                    "current table / presets / robust alphabet differ after the shard's decoder calls")
    return r


def replay(case):
    worker_init()
    s = case.get("input")
    if s is None:
        for fname, members in families("thorough"):
            if fname == case.get("family"):
                for label, x in members:
                    if label == case.get("member"):
                        s = x
    cls, detail, _ = call(s, case["compatible"], case["attribute"])
    return [] if cls in ("ok", "DecoderError") else [(cls, detail)]
