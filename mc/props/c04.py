"""C04 - the round trip keeps tetrahedral and double-bond stereochemistry.

E2/G1 written forms with one or two designated stereo-centres ([C@], [C@@], [C@H], [C@@H]) at every position (first
in the string, opening rings, closing rings, both, several ring digits in every order, implicit H), and the cis/trans
palette ('/', '\\' on chain bonds, on ring-opening digits, on ring-closing digits, on both, next to '=').
Oracle: parity of the permutation between the written neighbour sequences of input and output decides whether the
tag may change; every mark, normalised to the low->high atom direction, must be found on the same bond.
"""
import itertools

from mc import enum_smiles as E2
from mc.oracles import roundtrip, smiread
from mc.runner import Result, h64

PROPERTY = "C04"
RULE = ("state = written form (tree shape, ring-bond set, digit order, label scheme) x stereo decoration; every "
        "decorated form in the stated scopes goes through encoder and decoder; non-trivial = distinct SELFIES strings "
        "of accepted inputs that carry a stereo mark")
ASSUMPTIONS = [
    "handedness is judged from the written neighbour order (preceding atom, H, ring-closure digits in written order "
    "with the opening digit reserving its slot, branches, chain) as read by mc/oracles/smiread.py",
    "atom identity across the round trip is the atom index (C03's clause, re-checked here first)",
    "centres with two identical neighbour entries (e.g. H2) have no defined parity and are skipped",
]

TAGS = ["[C@]", "[C@@]", "[C@H]", "[C@@H]"]
RELAXED = {"?": 12}
SCHEMES = ("fresh", "desc", "two", "reuse")
EDGE = ["", "/", "\\", "="]
RINGM = [("", ""), ("/", ""), ("\\", ""), ("", "/"), ("", "\\"), ("/", "/"), ("/", "\\"), ("\\", "/"), ("=", "")]


def plan(tier, seed):
    thorough = tier == "thorough"
    scopes, tasks = [], []
    n1, r1 = (6, 3) if thorough else (6, 2)
    scopes.append({"name": "one-centre", "n_max": n1, "r_max": r1, "r_min": 1, "tags": TAGS, "position": "every atom",
                   "digit_orders": "all", "label_schemes": SCHEMES, "table": RELAXED})
    for n in range(3, n1 + 1):
        for pi, par in enumerate(E2.parent_vectors(n)):
            tasks.append(("one-centre", ("one", n, pi, r1)))
    n2, r2 = (6, 2) if thorough else (5, 2)
    scopes.append({"name": "two-centres", "n_max": n2, "r_max": r2, "r_min": 1, "tags": ["[C@]", "[C@@H]"],
                   "positions": "every pair of atoms", "digit_orders": "all", "label_schemes": ("fresh", "desc"),
                   "table": RELAXED})
    for n in range(3, n2 + 1):
        for pi, par in enumerate(E2.parent_vectors(n)):
            tasks.append(("two-centres", ("two", n, pi, r2)))
    nl = 6 if thorough else 5
    scopes.append({"name": "lenient-centres", "n_max": nl, "r_max": 2, "r_min": 1, "tags": ["[C@]", "[C@@H]"],
                   "desc": "one centre at every position in every non-standard spelling the encoder accepts (ring digits "
                           "after the k-th branch, trailing parenthesised branches)", "table": RELAXED})
    for n in range(3, nl + 1):
        for pi, par in enumerate(E2.parent_vectors(n)):
            tasks.append(("lenient-centres", ("lenient", n, pi)))
    scopes.append({"name": "centre-with-three-ring-bonds", "n": "5..6", "r": 3, "tags": ["[C@]", "[C@@]"],
                   "desc": "every shape in which some atom carries three ring bonds (openings and/or closures), that atom tagged, "
                           "every order of its ring digits; all forms of a task are encoded in one process one after the other",
                   "table": RELAXED})
    for n in (5, 6):
        for pi, par in enumerate(E2.parent_vectors(n)):
            tasks.append(("centre-with-three-ring-bonds", ("three", n, pi)))
    scopes.append({"name": "spelled-out-tetrahedral-class", "n_max": 5, "r_max": 2, "tags": ["[C@TH1]", "[C@TH2]", "[C@TH1H]", "[C@TH2H]"],
                   "desc": "@TH1 / @TH2 are OpenSMILES for @ / @@; documented as unsupported and rejected by the pinned encoder, "
                           "judged like @ / @@ only when accepted", "table": RELAXED})
    for n in range(3, 6):
        for pi, par in enumerate(E2.parent_vectors(n)):
            tasks.append(("spelled-out-tetrahedral-class", ("thclass", n, pi)))
    scopes.append({"name": "acyclic-centres", "n_max": 6, "desc": "no rings: every position, 4 tags (no inversion expected)",
                   "table": "default"})
    tasks.append(("acyclic-centres", ("acyc", 6)))
    nm = 5 if thorough else 4
    scopes.append({"name": "cis-trans", "n_max": nm, "r_max": 1, "edge_symbols": EDGE, "ring_symbols(open,close)": RINGM,
                   "table": RELAXED})
    for n in range(2, nm + 1):
        for pi, par in enumerate(E2.parent_vectors(n)):
            tasks.append(("cis-trans", ("marks", n, pi)))
    nm2 = 5 if thorough else 4
    scopes.append({"name": "cis-trans-two-ring-bonds", "n_max": nm2, "r": 2, "edge_symbols": ["", "=", "/"],
                   "ring_symbols(open,close)": [("", ""), ("/", ""), ("\\", ""), ("", "/")], "digit_orders": "all",
                   "desc": "two ring bonds, each with and without a mark on either digit, every order of the digits at an atom: a mark "
                           "belongs to the digit it is written before", "table": RELAXED})
    for n in range(3, nm2 + 1):
        for pi, par in enumerate(E2.parent_vectors(n)):
            tasks.append(("cis-trans-two-ring-bonds", ("marks2", n, pi)))
    return {"scopes": scopes, "tasks": tasks, "bounds": {"one": [n1, r1], "two": [n2, r2], "marks_n": nm},
            "weight": lambda t: t[1][1]}


_SF = None
_CUR = [None]


def worker_init():
    global _SF
    import selfies
    _SF = selfies


def use(table):
    key = repr(table)
    if _CUR[0] != key:
        _SF.set_semantic_constraints(table if isinstance(table, str) else dict(table))
        _CUR[0] = key


def check(smi, table, r, tolerant=False, ext=False):
    use(table)
    r.evaluations += 1
    r.transitions += 1
    try:
        ain = smiread.read_smiles(smi, tolerant=tolerant, ring_across_dot=False, ext=ext)
    except smiread.SmiError:
        r.cov["generated form outside the reader's strict grammar"] += 1
        return None
    case = {"smiles": smi, "table": table}
    try:
        x = _SF.encoder(smi, strict=True)
    except _SF.EncoderError:
        r.cov["encoder rejects"] += 1
        return None
    except Exception as e:
        r.cov["encoder escapes with %s (C09's business)" % type(e).__name__] += 1
        return None
    try:
        y = _SF.decoder(x)
        aout = smiread.read_smiles(y)
    except Exception as e:
        r.violation("decode-or-read-fails", case, "%r -> %r: %r" % (smi, x, e))
        return None
    v = roundtrip.compare_skeleton(ain, aout)
    if v:
        r.violation("skeleton:" + v[0], case, "%r -> %r -> %r: %s" % (smi, x, y, v[1]))
        return None
    v = roundtrip.compare_stereo(ain, aout)
    if v:
        r.violation(v[0], case, "%r -> %r -> %r: %s" % (smi, x, y, v[1]))
        return None
    # the same SMILES through the encoder's other mode: whatever strict=False returns must round-trip as well
    try:
        x2 = _SF.encoder(smi, strict=False)
    except Exception as e:
        r.violation("nonstrict-rejects-what-strict-accepts", case, "%r: %r" % (smi, e))
        return None
    if x2 != x:
        try:
            y2 = _SF.decoder(x2)
            aout2 = smiread.read_smiles(y2)
        except Exception as e:
            r.violation("decode-or-read-fails", case, "strict=False: %r -> %r: %r" % (smi, x2, e))
            return None
        v = roundtrip.compare_skeleton(ain, aout2) or roundtrip.compare_stereo(ain, aout2)
        if v:
            r.violation("strict=False:" + v[0], case, "%r -> %r -> %r: %s" % (smi, x2, y2, v[1]))
            return None
    r.validated += 1
    r.nontrivial.add(h64(x))
    # did the encoder flip the tag anywhere?  (vacuity guard: both flipped and unflipped centres must occur)
    for a, b in zip(ain, aout):
        if a.chir:
            r.cov["centre tag kept" if a.chir == b.chir else "centre tag flipped (neighbour order changed parity)"] += 1
    return x


def run(task):
    scope, arg = task
    r = Result()
    kind = arg[0]
    last = None
    if kind in ("one", "two"):
        _, n, pi, rmax = arg
        par = list(E2.parent_vectors(n))[pi]
        bt = [""] * n
        schemes = SCHEMES if kind == "one" else ("fresh", "desc")
        for rings in E2.ring_sets(n, par, rmax, 1):
            r.states += 1
            for dp in E2.digit_orders(rings):
                for sc in schemes:
                    if sc == "reuse" and dp is not None:
                        continue
                    if kind == "one":
                        for i in range(n):
                            for tag in TAGS:
                                at = ["C"] * n
                                at[i] = tag
                                smi = E2.write(n, par, rings, at, bt, scheme=sc, digit_perm=dp)
                                last = (smi, check(smi, RELAXED, r))
                                if n <= 4 and sc == "fresh":
                                    # the same centre in a second / first fragment and next to a copy of itself
                                    check("C1CC1." + smi, RELAXED, r)
                                    check(smi + ".N", RELAXED, r)
                                    check(smi + "." + smi, RELAXED, r)
                    else:
                        for i, j in itertools.combinations(range(n), 2):
                            for ti, tj in itertools.product(("[C@]", "[C@@H]"), repeat=2):
                                at = ["C"] * n
                                at[i], at[j] = ti, tj
                                smi = E2.write(n, par, rings, at, bt, scheme=sc, digit_perm=dp)
                                last = (smi, check(smi, RELAXED, r))
    elif kind == "thclass":
        _, n, pi = arg
        par = list(E2.parent_vectors(n))[pi]
        bt = [""] * n
        for rings in E2.ring_sets(n, par, 2, 0):
            r.states += 1
            for dp in E2.digit_orders(rings):
                for i in range(n):
                    for tag in ("[C@TH1]", "[C@TH2]", "[C@TH1H]", "[C@TH2H]"):
                        at = ["C"] * n
                        at[i] = tag
                        smi = E2.write(n, par, rings, at, bt, digit_perm=dp)
                        last = (smi, check(smi, RELAXED, r, ext=True))
    elif kind == "three":
        _, n, pi = arg
        par = list(E2.parent_vectors(n))[pi]
        bt = [""] * n
        for rings in E2.ring_sets(n, par, 3, 3):
            cnt = {}
            for a, b in rings:
                cnt[a] = cnt.get(a, 0) + 1
                cnt[b] = cnt.get(b, 0) + 1
            centres = [i for i, c in cnt.items() if c >= 3]
            if not centres:
                continue
            r.states += 1
            for dp in E2.digit_orders(rings):
                for i in centres:
                    for tag in ("[C@]", "[C@@]"):
                        at = ["C"] * n
                        at[i] = tag
                        smi = E2.write(n, par, rings, at, bt, digit_perm=dp)
                        last = (smi, check(smi, RELAXED, r))
    elif kind == "lenient":
        _, n, pi = arg
        par = list(E2.parent_vectors(n))[pi]
        bt = [""] * n
        for rings in E2.ring_sets(n, par, 2, 1):
            r.states += 1
            for ds, pl in E2.lenient_variants(n, par, rings):
                for i in range(n):
                    for tag in ("[C@]", "[C@@H]"):
                        at = ["C"] * n
                        at[i] = tag
                        smi = E2.write(n, par, rings, at, bt, digit_slot=ds, paren_last=pl)
                        last = (smi, check(smi, RELAXED, r, tolerant=True))
    elif kind == "marks2":
        _, n, pi = arg
        par = list(E2.parent_vectors(n))[pi]
        at = ["C"] * n
        RM = [("", ""), ("/", ""), ("\\", ""), ("", "/")]
        for rings in E2.ring_sets(n, par, 2, 2):
            r.states += 1
            for dp in E2.digit_orders(rings):
                for bt in itertools.product(["", "=", "/"], repeat=n - 1):
                    if "=" not in bt:
                        continue
                    for r1, r2 in itertools.product(RM, repeat=2):
                        if r1 == r2 == ("", ""):
                            continue
                        smi = E2.write(n, par, rings, at, [""] + list(bt), ring_tok={rings[0]: r1, rings[1]: r2}, digit_perm=dp)
                        last = (smi, check(smi, RELAXED, r))
    elif kind == "acyc":
        for n in range(1, arg[1] + 1):
            for par in E2.parent_vectors(n):
                r.states += 1
                for i in range(n):
                    for tag in TAGS:
                        at = ["C"] * n
                        at[i] = tag
                        smi = E2.write(n, par, (), at, [""] * n)
                        last = (smi, check(smi, "default", r))
    else:
        _, n, pi = arg
        par = list(E2.parent_vectors(n))[pi]
        at = ["C"] * n
        for rings in E2.ring_sets(n, par, 1):
            r.states += 1
            for bt in itertools.product(EDGE, repeat=n - 1):
                bt = [""] + list(bt)
                for rs in (RINGM if rings else [None]):
                    rt = {rings[0]: rs} if rings else None
                    smi = E2.write(n, par, rings, at, bt, ring_tok=rt)
                    last = (smi, check(smi, RELAXED, r))
    if last:
        r.sample({"scope": scope, "smiles": last[0], "encoder": last[1]}, 1)
    return r


def replay(case):
    worker_init()
    r = Result()
    check(case["smiles"], case["table"], r)
    return [(sig, v[0]["detail"]) for sig, v in r.viol.items()]
