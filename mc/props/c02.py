"""C02 - the decoder implements the documented derivation grammar exactly.

E1 over several alphabets x tables; oracle = O2 (reference derivation model) + O1 (independent reader of the
decoder's output): accept/reject must coincide, and on acceptance atoms (in order, with isotope, chirality tag,
H count, charge), bonded pairs, bond orders, '/' '\\' marks per bond end and the written neighbour order of every
atom must be equal.  Ring-closure numbering and other spelling choices of the writer are not compared.
"""
import collections
import itertools

from mc import enum_strings as E1
from mc import tables
from mc.oracles import deccmp, misc
from mc.runner import Result, h64

PROPERTY = "C02"
RULE = ("every token string of length <= L over each listed alphabet (prefix tree: state = prefix, transition = "
        "append a token) is decoded by the implementation and by the reference model under each listed table; "
        "non-trivial = distinct non-empty SMILES returned by the implementation")
ASSUMPTIONS = [
    "reference model mc/oracles/refmodel.py renders docs/source/derivation.rst; the eight decisions frozen where the "
    "docs are silent are listed in DESIGN.md section 4.2",
    "independent reader mc/oracles/smiread.py defines how the output SMILES is read",
    "the table given to the model is the dict passed to set_semantic_constraints (presets: read back via the getter)",
    "symbols with non-ASCII digits are not enumerated here (only in C08)",
]

A_CORE = ["[C]", "[=C]", "[#C]", "[N]", "[O]", "[F]", "[Branch1]", "[=Branch1]", "[Ring1]", "[=Ring1]", "[Ring2]", "."]
A_STEREO = ["[C]", "[/C]", "[\\C]", "[=C]", "[N]", "[Branch1]", "[Ring1]", "[-/Ring1]", "[\\/Ring1]", "[/-Ring1]",
            "[//Ring1]", "[=Ring1]"]
A_STATE = ["[CH4]", "[CH3]", "[=CH2]", "[S]", "[=S]", "[#S]", "[C@@H1]", "[13C]", "[N+1]", "[O-1]", "[B]",
           "[#Branch2]", "[Branch3]", "[#Ring2]", "[Ring3]", "[epsilon]", "[nop]", "."]
A_OUTSIDE = ["[C]", "[=N]", "[Branch1]", "[Ring1]", "[Branch4]", "[Ring0]", "[--Ring1]", "[Xx]", "[c]", "[C+0]",
             "[CH5]", "[CH10]", "[C@@@]", "[eps]", "[Epsilon]", "[C-01]"]
A_BIG = ["[C]", "[=C]", "[N]", "[=O]", "[Branch1]", "[Ring1]", "[#Branch1]", "[=Ring2]"]

# rings competing for the same valences from both directions (a ring queued inside a branch targets the branch's parent,
# which then closes its own ring): the shortest strings where clipping at *both* ends matters have 8 symbols
A_CONT = ["[C]", "[=C]", "[Branch1]", "[Ring1]", "[=Ring1]", "[#Ring1]"]
# deeper ring contention (the shortest strings in which a ring landing on an existing bond, or a second ring on the same pair,
# changes what a *later* ring at that atom may still take have 10-11 symbols); only strings starting with an atom are enumerated
A_RC1 = ["[C]", "[Branch1]", "[Ring1]", "[Ring2]"]
A_RC2 = ["[C]", "[Branch1]", "[Ring1]", "[#Ring1]"]
A_RC3 = ["[C]", "[Branch1]", "[Ring1]", "[=Ring1]"]
ATOM_FIRST = ("rc1", "rc2", "rc3")
ALPHABETS = {"rc1": A_RC1, "rc2": A_RC2, "rc3": A_RC3, "contention": A_CONT, "core": A_CORE, "stereo": A_STEREO, "state": A_STATE, "outside": A_OUTSIDE, "deep": A_BIG}

INDEX_HEADS = ["[Ring1]", "[Ring2]", "[Ring3]", "[Branch1]", "[=Branch2]", "[#Branch3]"]
INDEX_DIGITS = misc.INDEX + ["[F]", "[nop]"]


def plan(tier, seed):
    thorough = tier == "thorough"
    grid = []   # (alphabet, table, L)
    if thorough:
        grid += [("core", "default", 7)]
        grid += [("core", t, 6) for t in tables.ALL if t != "default"]
        grid += [("stereo", "default", 6), ("stereo", "big", 5)]
        grid += [("state", "default", 5), ("state", "hypervalent", 4), ("state", "mix", 4), ("state", "octet_rule", 4)]
        grid += [("outside", "default", 5), ("outside", "zero", 4)]
        grid += [("deep", "default", 8), ("deep", "big", 7), ("contention", "default", 9), ("contention", "hypervalent", 8)]
        grid += [("rc1", "default", 12), ("rc2", "default", 12), ("rc3", "default", 12), ("rc1", "hypervalent", 11)]
    else:
        grid += [("core", "default", 6)]
        grid += [("core", t, 5) for t in tables.ALL if t != "default"]
        grid += [("stereo", "default", 5)]
        grid += [("state", "default", 4), ("state", "mix", 3)]
        grid += [("outside", "default", 4)]
        grid += [("deep", "default", 7), ("contention", "default", 8)]
        grid += [("rc1", "default", 11), ("rc2", "default", 11), ("rc3", "default", 10)]
    # rotating extra scope chosen by the seed (reported; the core scopes above never depend on the seed)
    extras = [("stereo", "mix", 4), ("state", "big", 3), ("outside", "octet_rule", 3), ("deep", "hypervalent", 6),
              ("core", "big", 5)]
    grid.append(extras[seed % len(extras)])
    scopes, tasks = [], []
    for (an, tn, L) in grid:
        name = "%s/%s/L%d" % (an, tn, L)
        A = ALPHABETS[an]
        scopes.append({"name": name, "alphabet": A, "table": tn, "bound_L": L,
                       "tree_size": E1.tree_size(len(A), L) if an not in ATOM_FIRST else len(A) ** (L - 1) * len(A) // (len(A) - 1),
                       **({"restricted_to": "strings that start with " + A[0]} if an in ATOM_FIRST else {})})
        for sh in E1.shard_prefixes(A, L, 2 if an not in ATOM_FIRST else 3):
            if an in ATOM_FIRST and not (sh[0] == "sub" and sh[1][0] == 0):
                continue        # strings starting with the atom symbol only (a leading ring / branch symbol is skipped in state 0)
            tasks.append((name, ("strings", an, tn, L, sh)))
    for tn in (("default", "mix") if not thorough else tables.ALL):
        name = "index-context/%s" % tn
        scopes.append({"name": name, "table": tn,
                       "desc": "'[C]'*k + head + every digit tuple over 16 index symbols + [F] + [nop] (+ missing) "
                               "+ tail, heads %r, k in (2,5), tails ('', '[O][N][=C]')" % (INDEX_HEADS,)})
        for head in INDEX_HEADS:
            tasks.append((name, ("index", tn, head)))
    els = sorted(misc.ELEMENTS)
    scopes.append({"name": "every-element", "table": "default and mix",
                   "desc": "[C] sym [C] and sym alone for every element x bond prefix ('', =, #, /, \\) x isotope ('', 13) x "
                           "chirality ('', @, @@) x H ('', H1, H3) x charge ('', +1, -1, +2, +10, -20): symbol classification must not "
                           "depend on how an element is spelled"})
    for k in range(0, len(els), 8):
        tasks.append(("every-element", ("elements", els[k:k + 8])))
    # the parametric families of C01 (ring counts, rings open at once, rings across fragments, nesting, budgets), here
    # compared with the model; members with >= 100 ring bonds are left to C01 (its known ring-label finding)
    from mc.props import c01
    for fi, (fname, table, members) in enumerate(c01.families(tier)):
        name = "family/%s/%s" % (fname, table if isinstance(table, str) else "huge")
        scopes.append({"name": name, "members": len(members), "table": table})
        for k in range(0, len(members), 20):
            tasks.append((name, ("family", fi, k, k + 20, tier)))
    return {"scopes": scopes, "tasks": tasks,
            "bounds": {"max_L": max(g[2] for g in grid), "alphabets": {k: len(v) for k, v in ALPHABETS.items()}}}


_SF = None
_CUR = [None, None]


def worker_init():
    global _SF
    import selfies
    _SF = selfies


def use_table(tn):
    if _CUR[0] != tn:
        _CUR[1] = tables.set_table(_SF, tn)
        _CUR[0] = tn
    return _CUR[1]


def check_tokens(w, table, trace, r):
    s = "".join(w)
    verdict, got = deccmp.compare(_SF, s, w, table, trace)
    r.evaluations += 1
    r.states += 1
    if w:
        r.transitions += 1
    if verdict is None:
        r.validated += 1
    else:
        r.violation(verdict[0], {"kind": "string", "selfies": s, "table": dict(table)}, verdict[1])
    if got[0] == "ok" and got[1]:
        r.nontrivial.add(h64(got[1]))
    return got


def run(task):
    scope, arg = task
    r = Result()
    trace = collections.Counter()
    if arg[0] == "strings":
        _, an, tn, L, sh = arg
        table = use_table(tn)
        A = ALPHABETS[an]
        last = None
        for w in E1.nodes(A, L, sh):
            got = check_tokens(w, table, trace, r)
            last = (w, got)
        if last is not None:
            r.sample({"scope": scope, "selfies": "".join(last[0]), "decoder": last[1][1] if last[1][0] == "ok" else last[1][0]}, 1)
    elif arg[0] == "family":
        from mc.props import c01
        _, fi, lo, hi, tier = arg
        fname, table, members = c01.families(tier)[fi]
        if isinstance(table, str):
            t = use_table(table)
        else:
            _SF.set_semantic_constraints(dict(table))
            _CUR[0] = None
            t = dict(table)
        for label, s_ in members[lo:hi]:
            if len(s_) > 30000:
                continue
            w = tuple(misc.tokenize(s_))
            if fname.startswith("rings-") and sum(1 for x in w if "Ring" in x) >= 198:
                continue
            try:
                from mc.oracles import refmodel
                m = refmodel.decode(w, t)
                if sum(len(x) for x in m.ringnbrs) // 2 >= 100:
                    continue
            except refmodel.Reject:
                pass
            check_tokens(w, t, trace, r)
        if lo == 0:
            r.sample({"scope": scope, "member": members[0][0], "selfies": members[0][1][:100]}, 1)
    elif arg[0] == "elements":
        for tn in ("default", "mix"):
            table = use_table(tn)
            for el in arg[1]:
                for b, iso, chir, h, chg in itertools.product(["", "=", "#", "/", "\\"], ["", "13"], ["", "@", "@@"],
                                                              ["", "H1", "H3"], ["", "+1", "-1", "+2", "+10", "-20"]):
                    sym = "[%s%s%s%s%s%s]" % (b, iso, el, chir, h, chg)
                    check_tokens((sym,), table, trace, r)
                    check_tokens(("[C]", sym, "[C]"), table, trace, r)
        r.sample({"scope": scope, "selfies": "[C]" + sym + "[C]"}, 1)
    else:
        _, tn, head = arg
        table = use_table(tn)
        L = int(head[-2])
        for k in (2, 5):
            for tail in ((), ("[O]", "[N]", "[=C]")):
                for nd in range(0, L + 1):
                    # nd digits present; fewer than L only when nothing follows (missing digits at string end)
                    if nd < L and tail:
                        continue
                    for digs in itertools.product(INDEX_DIGITS, repeat=nd):
                        w = ("[C]",) * k + (head,) + digs + tail
                        check_tokens(w, table, trace, r)
        r.sample({"scope": scope, "selfies": "[C][C]" + head + "[S][P][O][N][=C]"[:0] + "..."}, 1)
    for (kind, st, inb), c in trace.items():
        r.cov["%s@X%d%s" % (kind, st, "/branch" if inb else "")] += c
    return r


def replay(case):
    worker_init()
    _SF.set_semantic_constraints(dict(case["table"]))
    toks = misc.tokenize(case["selfies"])
    verdict, got = deccmp.compare(_SF, case["selfies"], toks, case["table"])
    return [verdict] if verdict else []
