"""C19 - concurrent translation calls give the same results as serial calls.   (E4)

Real threads run real selfies.encoder / selfies.decoder calls under a controlled scheduler (sys.monitoring LINE or
INSTRUCTION events on every code object of the package).  All schedules with <= c preemptions are enumerated
(iterative context bounding: 0, then 1, then 2); before every execution the library's module state is restored so the
first-sight cache writes happen in every execution.  Oracle: every call returns what it returns when run alone.
"""
from mc import hist_explorer as H
from mc import sched_explorer as S
from mc.runner import Result, h64

PROPERTY = "C19"
PRELUDE = False     # see mc/prelude.py: this check manages the library state itself
RULE = ("state = (program counters of the controlled threads at LINE/INSTRUCTION granularity, shared module state); a "
        "schedule = list of (thread, run length) segments; every schedule with <= c preemptions of each listed job "
        "pair/triple is executed on real threads; non-trivial = distinct (job set, per-thread event counts, final "
        "shared-cache signature) outcomes")
ASSUMPTIONS = [
    "CPython with the GIL: the atomic unit is the bytecode instruction; INSTRUCTION granularity covers every switch "
    "point inside selfies code, LINE granularity every line boundary; free-threaded builds are out of scope",
    "C-level code called from selfies (functools.lru_cache, dict, re) is atomic with respect to the controlled threads",
    "the constraint table is fixed (default) during every execution",
    "a violating schedule is re-executed twice and must reproduce identically before it is reported",
]

# (name, kind, argument, kwargs)
JOBS = {
    "dec-Si-a": ("decoder", "[Si][C][Si]", {}),
    "dec-Si-b": ("decoder", "[Si][O]", {}),
    "dec-SiH": ("decoder", "[SiH1][C][=O]", {}),
    "dec-ring-a": ("decoder", "[C][Si][C][Ring1][Ring1]", {}),
    "dec-ring-b": ("decoder", "[Si][C][O][Ring1][Ring1]", {}),
    "dec-branch-frag": ("decoder", "[C][Branch1][C][O][N].[F]", {}),
    "dec-branch2": ("decoder", "[N][=Branch1][C][=O][C]", {}),
    "enc-ring-Si": ("encoder", "C1CC1[Si]", {}),
    "enc-pyridine": ("encoder", "c1ccncc1", {}),
    "enc-pyrrole": ("encoder", "c1cc[nH]c1", {}),
    "dec-attr-a": ("decoder", "[C][N][Branch1][C][P][C]", {"attribute": True}),
    "dec-attr-b": ("decoder", "[C][O].[N]", {"attribute": True}),
    "enc-strict-fail": ("encoder", "C(F)(F)(F)(F)F", {}),
    "enc-attr": ("encoder", "C(=O)N", {"attribute": True}),
    "enc-oddfused-a": ("encoder", "c12c3ccc1cc2ccc3", {}),            # greedy matching is not perfect: augmentation runs
    "enc-oddfused-b": ("encoder", "c1cc2ccc3ccc1c23", {}),
    "dec-P": ("decoder", "[C][P][=O][=O]", {}),
    "dec-S": ("decoder", "[O][=S][=O][=O]", {}),
    "enc-two-rings-a": ("encoder2", ("C1CC1", "N1CCCCCCCCCCCCCCCCCC1"), {}),      # two calls in one thread, growing index values
    "enc-two-rings-b": ("encoder2", ("O1CCCCC1", "C(CCCCCCCCCCCCCCCCCCCCC)N"), {}),
    "dec-short-a": ("decoder", "[Ge]", {}),
    "dec-short-b": ("decoder", "[Ge][Ge]", {}),
    "dec-chg-a": ("decoder", "[N+1][C]", {}),
    "dec-chg-b": ("decoder", "[=N+1][O]", {}),
    # calls that differ in their *flags*, and calls that fail (the exception text names the call's own input)
    "dec-compat": ("decoder", "[C@@Hexpl][Branch1_1][C][Clexpl]", {"compatible": True}),
    "dec-legacy-noflag": ("decoder", "[N][Branch1_1][C][O][Cexpl]", {}),
    "dec-fail": ("decoder", "[C][O][C][Foo]", {}),
    "enc-nonstrict": ("encoder", "C(F)(F)(F)(F)F", {"strict": False}),
    "enc-fail": ("encoder", "N1CC(C", {}),
    "dec-foreign-index": ("decoder", "[C][C][C][Ring1][F]", {}),      # irregular but accepted: a non-index symbol / nothing in index position
    "dec-cut-index": ("decoder", "[C][C][C][C][Ring2][Xe]", {}),
    "enc-blossoms": ("encoder", "c23c1ccc3cccccccc2ccc1", {}),       # several odd cycles are contracted within one augmenting-path search
    "enc-3blossoms": ("encoder", "c12c3cc4c3c4c1c2", {}),             # the smallest chain+chords system with three contractions in one search
}
PAIRS = [("dec-Si-a", "dec-Si-b"), ("dec-Si-a", "dec-SiH"), ("dec-ring-a", "dec-ring-b"),
         ("dec-branch-frag", "dec-branch2"), ("enc-ring-Si", "dec-ring-b"), ("enc-pyridine", "enc-pyrrole"),
         ("dec-attr-a", "dec-attr-b"), ("enc-strict-fail", "dec-Si-a"), ("enc-attr", "dec-attr-b"),
         ("dec-short-a", "dec-short-b"), ("dec-chg-a", "dec-chg-b"), ("dec-Si-a", "dec-Si-a"),
         ("enc-oddfused-a", "enc-oddfused-a"), ("enc-oddfused-a", "enc-oddfused-b"), ("enc-pyridine", "enc-pyridine"),
         ("enc-two-rings-a", "enc-two-rings-b"), ("enc-two-rings-a", "enc-two-rings-a"),
         ("dec-compat", "dec-legacy-noflag"), ("dec-compat", "dec-Si-a"), ("dec-fail", "dec-legacy-noflag"),
         ("enc-nonstrict", "enc-strict-fail"), ("enc-fail", "enc-pyridine"), ("dec-fail", "dec-ring-a"),
         ("dec-foreign-index", "dec-cut-index"), ("dec-foreign-index", "dec-ring-a")]
SHORT = [("dec-short-a", "dec-short-b"), ("dec-chg-a", "dec-chg-b"), ("dec-Si-b", "dec-Si-b")]
TRIPLES = [("dec-short-a", "dec-short-b", "dec-Si-b"), ("dec-chg-a", "dec-chg-b", "enc-pyrrole")]
NCHUNK = 8


def plan(tier, seed):
    thorough = tier == "thorough"
    scopes, tasks = [], []
    scopes.append({"name": "pairs/line/bound1", "pairs": PAIRS, "granularity": "LINE", "preemptions": "<= 1"})
    for p in PAIRS:
        for first in (0, 1):
            for c in range(NCHUNK):
                tasks.append(("pairs/line/bound1", ("b1", p, first, c, NCHUNK, "line")))
    # bound 2 costs (events of A) x (events of B) executions per pair: only pairs of short calls
    b2 = SHORT + [("dec-Si-a", "dec-Si-b"), ("dec-ring-a", "dec-ring-b"), ("dec-P", "dec-S")] if thorough else SHORT[:1]
    scopes.append({"name": "pairs/line/bound2", "pairs": b2, "granularity": "LINE", "preemptions": "<= 2"})
    nc2 = 32 if thorough else 8
    for p in b2:
        for first in (0, 1):
            for c in range(nc2):
                tasks.append(("pairs/line/bound2", ("b2", p, first, c, nc2, "line")))
    ip = PAIRS if thorough else SHORT + PAIRS[:2]
    scopes.append({"name": "pairs/instruction/bound1", "pairs": ip, "granularity": "INSTRUCTION", "preemptions": "<= 1"})
    for p in ip:
        for first in (0, 1):
            for c in range(NCHUNK):
                tasks.append(("pairs/instruction/bound1", ("b1", p, first, c, NCHUNK, "instruction")))
    pp = [("dec-P", "dec-S"), ("dec-S", "dec-S"), ("dec-Si-a", "dec-Si-b"), ("enc-ring-Si", "dec-S")]
    scopes.append({"name": "pairs/line/bound1/after-history", "pairs": pp, "granularity": "LINE", "preemptions": "<= 1",
                   "desc": "before every execution (after the restore) the library goes through a history: octet_rule is installed, P/S/Si "
                           "symbols are decoded (warm caches), then the default table is installed; the table is fixed from then on"})
    for p in pp:
        for first in (0, 1):
            for c in range(NCHUNK):
                tasks.append(("pairs/line/bound1/after-history", ("h1", p, first, c, NCHUNK, "line")))
    # partial-order reduction: scheduling points only at the lines that touch state shared between calls (sched_explorer.
    # shared_points); a switch anywhere else commutes.  With a few dozen points per call, preemption bound 2 (thorough: 3) is
    # affordable for every pair, also the long encoder calls
    sp = PAIRS + [("enc-blossoms", "enc-blossoms"), ("enc-blossoms", "enc-oddfused-a"), ("dec-compat", "dec-compat"),
                  ("enc-3blossoms", "enc-3blossoms")]
    scopes.append({"name": "pairs/shared-points/bound2", "pairs": sp, "granularity": "LINE restricted to shared-state lines",
                   "preemptions": "<= 2"})
    for p in sp:
        for first in (0, 1):
            for c in range(4):
                tasks.append(("pairs/shared-points/bound2", ("s2", p, first, c, 4, "shared")))
    if thorough:
        # bound 3 costs (events of A)^2 x (events of B) executions: every pair except those of the longest encoder calls
        sp3t = [p for p in sp if not any(n.startswith(("enc-two-rings", "enc-oddfused")) for n in p)]
        scopes.append({"name": "pairs/shared-points/bound3", "pairs": sp3t, "granularity": "LINE restricted to shared-state lines",
                       "preemptions": "<= 3"})
        for p in sp3t:
            for first in (0, 1):
                for c in range(16):
                    tasks.append(("pairs/shared-points/bound3", ("s3", p, first, c, 16, "shared")))
    if not thorough:
        sp3 = [("enc-3blossoms", "enc-3blossoms"), ("dec-short-a", "dec-short-b"), ("dec-ring-a", "dec-ring-b"), ("dec-compat", "dec-legacy-noflag")]
        scopes.append({"name": "pairs/shared-points/bound3", "pairs": sp3, "granularity": "LINE restricted to shared-state lines",
                       "preemptions": "<= 3"})
        for p in sp3:
            for first in (0, 1):
                for c in range(8):
                    tasks.append(("pairs/shared-points/bound3", ("s3", p, first, c, 8, "shared")))
    if not thorough:
        aba = [("enc-blossoms", "enc-blossoms", "enc-blossoms"), ("dec-ring-a", "dec-ring-a", "dec-ring-a")]
        scopes.append({"name": "triples/shared-points/delayed-writer", "triples": aba, "granularity": "LINE restricted to shared-state lines",
                       "schedules": "(X,k1),(Y,k2 or to completion),(V,k3),(X,k4<=3), then V, Y, X to completion; every k1,k2,k3 <= 8 "
                                    "(the thorough tier removes that limit)", "preemptions": "<= 4"})
        for t in aba:
            for c in range(8):
                tasks.append(("triples/shared-points/delayed-writer", ("aba8", t, 0, c, 8, "shared")))
    if thorough:
        # the lost-update / ABA shape needs three threads: X reads shared state and is delayed while Y and then V make progress,
        # X then performs its write and stops, V goes on.  Identical jobs, so the thread roles need not be permuted.
        aba = [("enc-blossoms", "enc-blossoms", "enc-blossoms"), ("dec-ring-a", "dec-ring-a", "dec-ring-a")]
        scopes.append({"name": "triples/shared-points/delayed-writer", "triples": aba, "granularity": "LINE restricted to shared-state lines",
                       "schedules": "(X,k1),(Y,k2 or to completion),(V,k3),(X,k4<=3), then V, Y, X to completion; every k1,k2,k3",
                       "preemptions": "<= 4"})
        for t in aba:
            for c in range(32):
                tasks.append(("triples/shared-points/delayed-writer", ("aba", t, 0, c, 32, "shared")))
    tr = TRIPLES if thorough else TRIPLES[:1]
    scopes.append({"name": "triples/line/bound1", "triples": tr, "granularity": "LINE", "preemptions": "<= 1"})
    for t in tr:
        for first in (0, 1, 2):
            for c in range(NCHUNK):
                tasks.append(("triples/line/bound1", ("t1", t, first, c, NCHUNK, "line")))
    return {"scopes": scopes, "tasks": tasks,
            "bounds": {"threads": "2 (3 in triples)", "preemption_bound": 2, "jobs": {k: list(v[:2]) for k, v in JOBS.items()}},
            "weight": lambda t: {"b2": 3, "t1": 2, "s3": 4, "s2": 2, "aba": 5, "aba8": 2}.get(t[1][0], 1) + (2 if t[1][-1] == "instruction" else 0)}


_SF = None
_SERIAL = {}


POST_PROBES = [("encoder", "C1CCCCCCCCCCCCCCCCCC1(CCCCCCCCCCCCCCCCCCC)F"), ("decoder", "[Si][C][Ge][Ring1][Ring1][N+1]"),
               ("encoder", "c1cc[nH]c1"),
               ("decoder", "[C]" * 20 + "[Ring2][Ring1][C]"), ("decoder", "[N][Branch2][Ring1][Ring1]" + "[C]" * 19 + "[O]")]
_POST_REF = []


def post_probe():
    out = []
    for kind, arg in POST_PROBES:
        try:
            out.append(getattr(_SF, kind)(arg))
        except Exception as e:
            out.append("raises " + type(e).__name__)
    return out


def make_job(name):
    kind, arg, kw = JOBS[name]
    if kind == "encoder2":
        def job2():
            return tuple(_SF.encoder(a) for a in arg)
        return job2
    f = getattr(_SF, kind)

    def job():
        r = f(arg, **kw)
        if isinstance(r, tuple):       # attribution objects -> plain data
            return (r[0], [(a.index, a.token, [(x.index, x.token) for x in (a.attribution or [])]) for a in r[1]])
        return r
    return job


def worker_init():
    global _SF
    import selfies
    _SF = selfies
    H.walker()
    # warm every code path once so that no import or lazy initialisation happens under the scheduler
    for name in JOBS:
        try:
            make_job(name)()
        except Exception:
            pass
    H.restore()
    H.restore()
    _POST_REF[:] = post_probe()
    for name in JOBS:
        H.restore()
        try:
            _SERIAL[name] = ("ok", make_job(name)())
        except BaseException as e:
            _SERIAL[name] = ("exc", type(e).__name__, str(e)[:120])
    H.restore()


def shared_signature():
    w = H.walker()
    sig = []
    for _, (label, f) in sorted(w.lrus.items(), key=lambda kv: kv[1][0]):
        ci = f.cache_info()
        sig.append((ci.hits, ci.misses, ci.currsize))
    for o, _ in w.containers.values():
        if isinstance(o, dict):
            sig.append(len(o))
    return tuple(sig)


def restore_then_history():
    H.restore()
    _SF.set_semantic_constraints("octet_rule")
    for x in ("[C][P][=O][=O]", "[O][=S][=O][=O]", "[Si][C][Si]", "[SiH1][C]"):
        _SF.decoder(x)
    _SF.encoder("C1CC1[Si]", strict=False)
    _SF.get_semantic_robust_alphabet()
    _SF.set_semantic_constraints("default")


_RESET = [None]


def run_one(names, segments, r, tail=None, scope="", post=True):
    jobs = [make_job(n) for n in names]
    import sys as _sys
    g0 = (_sys.getrecursionlimit(), _sys.getswitchinterval())
    res, steps, trace = S.execute(jobs, segments, _RESET[0] or H.restore, tail)
    g1 = (_sys.getrecursionlimit(), _sys.getswitchinterval())
    if g1 != g0:
        # interpreter-wide settings are shared by every thread: a call that leaves them changed has leaked state into
        # every other call (e.g. which nesting depth raises 'nested too deeply')
        _sys.setrecursionlimit(g0[0])
        _sys.setswitchinterval(g0[1])
        r.violation("interpreter-global-state-changed",
                    {"jobs": list(names), "segments": [list(s) for s in segments], "tail": list(tail) if tail else None,
                     "granularity": S._INSTALLED[0], "after_history": _RESET[0] is not None},
                    "(recursion limit, switch interval) was %r before and %r after this schedule" % (g0, g1))
    r.evaluations += 1
    r.transitions += len(trace) + 1
    want = [_SERIAL[n] for n in names]
    after = post_probe() if post else _POST_REF
    if after != _POST_REF:
        k = [i for i, (a, b) in enumerate(zip(after, _POST_REF)) if a != b][0]
        r.violation("library-left-damaged-after-concurrent-calls",
                    {"jobs": list(names), "segments": [list(s) for s in segments], "tail": list(tail) if tail else None,
                     "granularity": S._INSTALLED[0], "after_history": _RESET[0] is not None},
                    "after this schedule %s(%r) returns %r; on a fresh library (and after every serial run) it returns %r" % (
                        POST_PROBES[k][0], POST_PROBES[k][1], after[k], _POST_REF[k]))
    if any(isinstance(x, tuple) and x and x[0] == "hang" for x in res):
        bad = [i for i, x in enumerate(res) if isinstance(x, tuple) and x and x[0] == "hang"][0]
        r.violation("hang-under-schedule:" + JOBS[names[bad]][0],
                    {"jobs": list(names), "segments": [list(s) for s in segments], "tail": list(tail) if tail else None,
                     "granularity": S._INSTALLED[0], "after_history": _RESET[0] is not None},
                    "thread %d (%s %r) did not terminate under this schedule" % (bad, JOBS[names[bad]][0], JOBS[names[bad]][1]))
        return res, steps
    if list(res) != want:
        # reproduce twice
        again = [S.execute([make_job(n) for n in names], segments, _RESET[0] or H.restore, tail) for _ in range(2)]
        if not (again[0][0] == again[1][0] == res and again[0][1] == again[1][1] == steps):
            raise RuntimeError("HARNESS: schedule %r of %r does not replay deterministically: %r / %r / %r" % (
                segments, names, (res, steps), again[0][:2], again[1][:2]))
        bad = [i for i in range(len(names)) if res[i] != want[i]][0]
        r.violation("concurrent-result-differs:" + JOBS[names[bad]][0],
                    {"jobs": list(names), "segments": [list(s) for s in segments], "tail": list(tail) if tail else None,
                     "granularity": S._INSTALLED[0], "after_history": _RESET[0] is not None},
                    "thread %d (%s %r) returned %r under this schedule but %r when run alone" % (
                        bad, JOBS[names[bad]][0], JOBS[names[bad]][1], res[bad], want[bad]))
    else:
        r.validated += 1
    r.nontrivial.add(h64((tuple(names), steps, shared_signature())))
    return res, steps


def run(task):
    scope, arg = task
    kind, names, first, c, nchunk, gran = arg
    S.install(gran)
    r = Result()
    n = len(names)
    _RESET[0] = restore_then_history if kind == "h1" else None
    if kind == "h1":
        kind = "b1"
    if kind in ("aba", "aba8"):
        _, steps0 = run_one(names, [(0, None)], r, tail=[1, 2])
        lim = 9 if kind == "aba8" else 10 ** 9
        E = min(steps0[0], lim)
        for k1 in [k for k in range(1, E) if k % nchunk == c]:
            for k2 in list(range(0, min(steps0[1] + 2, lim), 1)) + [None]:
                for k3 in range(1, min(steps0[2] + 2, lim)):
                    for k4 in (1, 2, 3):
                        run_one(names, [(0, k1), (1, k2), (2, k3), (0, k4)], r, tail=[2, 1, 0], post=False)
                        r.states += 1
        if c == 0:
            r.sample({"scope": scope, "jobs": [list(JOBS[x][:2]) for x in names], "shared_state_events_per_thread": list(steps0)}, 1)
    elif kind in ("s2", "s3"):
        other = 1 - first
        _, steps0 = run_one(names, [(first, None)], r, tail=[other])
        L = steps0[first]
        for k in [k for k in range(L) if k % nchunk == c]:
            res, st = run_one(names, [(first, k), (other, None)], r, tail=[first])
            r.states += 1
            for k2 in range(st[other]):
                res2, st2 = run_one(names, [(first, k), (other, k2), (first, None)], r, tail=[other], post=(k2 % 4 == 0))
                r.states += 1
                if kind == "s3":
                    for k3 in range(max(0, st2[first] - k)):
                        run_one(names, [(first, k), (other, k2), (first, k3), (other, None)], r, tail=[first], post=False)
                        r.states += 1
        if c == 0:
            r.sample({"scope": scope, "jobs": [list(JOBS[x][:2]) for x in names], "shared_state_events_per_thread": list(steps0),
                      "scheduling_points": len(S._POINTS[0] or ())}, 1)
        r.extra["max_events_per_call"] = max(steps0)
    elif kind in ("b1", "b2"):
        other = 1 - first
        # bound 0 from this starting thread (gives the event count of `first` when it starts on a cold library)
        _, steps0 = run_one(names, [(first, None)], r, tail=[other])
        L = steps0[first]
        ks = [k for k in range(L) if k % nchunk == c]
        for k in ks:
            res, st = run_one(names, [(first, k), (other, None)], r, tail=[first])
            r.states += 1
            if kind == "b2":
                for k2 in range(st[other]):
                    run_one(names, [(first, k), (other, k2), (first, None)], r, tail=[other], post=False)
                    r.states += 1
        if c == 0:
            r.sample({"scope": scope, "jobs": [list(JOBS[x][:2]) for x in names], "events_per_thread_serial": list(steps0),
                      "example_schedule": [[first, L // 2], [other, None]]}, 1)
        r.extra["max_events_per_call"] = max(steps0)
    else:
        others = [i for i in range(n) if i != first]
        _, steps0 = run_one(names, [(first, None)], r, tail=others)
        L = steps0[first]
        ks = [k for k in range(L) if k % nchunk == c]
        for k in ks:
            for nxt in others:
                rest = [i for i in range(n) if i != nxt]          # first (unfinished) and the third thread
                for tail in (rest, rest[::-1]):
                    run_one(names, [(first, k), (nxt, None)], r, tail=tail)
                    r.states += 1
        if c == 0:
            # all 6 non-preemptive orders
            import itertools
            for perm in itertools.permutations(range(n)):
                run_one(names, [(perm[0], None)], r, tail=list(perm[1:]))
            r.sample({"scope": scope, "jobs": [JOBS[x][:2] for x in names], "events_per_thread_serial": list(steps0)}, 1)
    _RESET[0] = None
    return r


def replay(case):
    worker_init()
    S.install(case.get("granularity") or "line")
    r = Result()
    _RESET[0] = restore_then_history if case.get("after_history") else None
    run_one(tuple(case["jobs"]), [tuple(s) for s in case["segments"]], r, tail=case.get("tail"))
    return [(sig, v[0]["detail"]) for sig, v in r.viol.items()]
