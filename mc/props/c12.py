"""C12 - configuration API: faithful set/get, atomic rejection, no aliasing.   (E3 + O4)

Explicit-state BFS over histories of configuration calls (valid and invalid updates, getters, caller-side mutation of
every object handed out or passed in) on the real library; after every transition the observed return value /
exception class is compared with the configuration model, and in the new state the getters, the presets and the robust
alphabet are compared with the model / a restored library set to the model's table.
"""
from mc.props import hist_common as HC
from mc.runner import Result

PROPERTY = "C12"
PRELUDE = False     # see mc/prelude.py: this check manages the library state itself
RULE = ("state = module-level state of the selfies package + caller-held objects after a history of configuration calls "
        "(deduplicated by structural fingerprint); transition = one of the %d menu operations on the real library; "
        "breadth-first to the stated depth with the oracle evaluated in every state; non-trivial = distinct states"
        % len(HC.CONFIG_OPS))
ASSUMPTIONS = [
    "O4: the current table is a dict; a valid update replaces it (keys 'E', 'E+n', 'E-n' with n a positive integer, '?', "
    "non-negative int values, '?' present); anything else raises ValueError and changes nothing; getters return copies",
    "equal fingerprints have equal futures: every library function is a function of its arguments and the fingerprinted "
    "state (no clocks, randomness, I/O or threads in the library)",
    "the in-place restorer is validated against truly fresh interpreters (3 hash seeds) in every run",
]
MENU = HC.CONFIG_OPS
# fixed-history scope "rejection-grid": every kind of illegal table (illegal value kinds x key kinds x entry first / last,
# malformed key spellings) applied in four base states; indices into MENU_X, never transitions of the BFS
MENU_X = MENU + HC.REJECTION_GRID + HC.KEY_NEIGHBOURHOOD
_NAMES = [op.name for op in MENU]
GRID_PREFIXES = [(), ("set(%s)" % HC.json.dumps(HC.T1, sort_keys=True),), ("set(\"octet_rule\")",),
                 ("set(%s)" % HC.json.dumps(HC.T2, sort_keys=True), "alphabet")]


def worker_init():
    HC.worker_init()


def plan(tier, seed):
    depth = 5 if tier == "thorough" else 4
    return {"scopes": [{"name": "level-%d" % d, "depth": d} for d in range(0, depth + 1)] + [
                {"name": "rejection-grid", "illegal_tables": [op.name for op in HC.REJECTION_GRID],
                 "base_histories": [list(p) for p in GRID_PREFIXES]},
                {"name": "key-neighbourhood", "tables": len(HC.KEY_NEIGHBOURHOOD), "base_history": list(GRID_PREFIXES[1]),
                 "desc": "edit-distance-1 neighbourhood (131 characters) of the keys C, Cl, Fe+2, N-1, O+12, each next to valid "
                         "entries; the model says which neighbours are valid"}],
            "tasks": [], "bounds": {"depth": depth, "menu": [op.name for op in MENU]}, "depth": depth}


run = HC.make_run(MENU_X, use_probes=True, prop="C12")   # "all translation behaviour exactly as before"


def explore(submit, plan, total, tier, seed):
    HC.explore(MENU_X, submit, total, plan["depth"], n_ops=len(MENU))
    hists = [tuple(_NAMES.index(n) for n in p) + (len(MENU) + k,) for p in GRID_PREFIXES for k in range(len(HC.REJECTION_GRID))]
    submit([("rejection-grid", (hists[k::32],)) for k in range(32)])
    base = len(MENU) + len(HC.REJECTION_GRID)
    hists = [tuple(_NAMES.index(n) for n in GRID_PREFIXES[1]) + (base + k,) for k in range(len(HC.KEY_NEIGHBOURHOOD))]
    submit([("key-neighbourhood", (hists[k::64],)) for k in range(64)])


def finish(total, tier, seed):
    HC.cross_process_checks(total)


def replay(case):
    worker_init()
    names = [op.name for op in MENU_X]
    hist = tuple(names.index(n) for n in case["history"])
    r = Result()
    HC.check_state(MENU_X, hist, r, True, "C12")
    return [(sig, v[0]["detail"]) for sig, v in r.viol.items()]
