"""C03 - SMILES -> SELFIES -> SMILES keeps atoms and bonds, index by index.

E2/G1: every written form (tree shape x ring-bond set x ring-digit order x label scheme) up to n atoms / r ring bonds,
with palettes for topology, bond orders (incl. ring-bond symbols on either or both ends), atom spellings and
multi-fragment forms, under the default table and a relaxed table.  Oracle: O1(input) vs O1(decoder(encoder(input))).
"""
import itertools

from mc import enum_smiles as E2
from mc.oracles import roundtrip, smiread
from mc.runner import Result, h64

PROPERTY = "C03"
RULE = ("state = written form (tree shape, ring-bond set, digit order, label scheme, atom/bond spellings); every form "
        "in the stated G1 scopes is generated, encoded with strict=True under the table, decoded and both strings read "
        "by the independent reader; non-trivial = distinct SELFIES strings produced for accepted inputs")
ASSUMPTIONS = [
    "independent reader mc/oracles/smiread.py reads both input and output (strict mode, ring bonds across '.' excluded "
    "from the input domain as the encoder documents)",
    "inputs the encoder rejects under the table are not C03's business (C06 decides whether the rejection is right); "
    "they are counted in coverage_table",
    "the chirality tag is not compared here (the encoder legitimately flips it; C04 judges it by parity)",
]

ATOM_PAL = ["C", "N", "O", "S", "F", "Cl", "[CH3]", "[NH4+]", "[O-]", "[13CH4]", "[Fe+2]", "[H]", "[C:7]", "[0C]"]
BOND_PAL = ["", "-", "=", "#"]
RING_SYM = [("", ""), ("=", ""), ("", "="), ("=", "="), ("-", ""), ("", "-"), ("#", "#")]
RELAXED = {"?": 12}
ORG = ["B", "C", "N", "O", "S", "P", "F", "Cl", "Br", "I"]
SCHEMES = ("fresh", "desc", "two", "reuse")


def plan(tier, seed):
    thorough = tier == "thorough"
    scopes, tasks = [], []
    nt, rt = (8, 3) if thorough else (7, 2)
    scopes.append({"name": "topology", "n_max": nt, "r_max": rt, "atoms": "all C", "bonds": "single",
                   "digit_orders": "all", "label_schemes": SCHEMES, "tables": ["default", RELAXED]})
    for n in range(1, nt + 1):
        for pi, par in enumerate(E2.parent_vectors(n)):
            tasks.append(("topology", ("topo", n, pi, rt)))
    nb = 6 if thorough else 5
    scopes.append({"name": "bond-orders", "n_max": nb, "r_max": 1, "edge_symbols": BOND_PAL,
                   "ring_bond_symbols(open,close)": RING_SYM, "tables": [RELAXED, "default"]})
    for n in range(2, nb + 1):
        for pi, par in enumerate(E2.parent_vectors(n)):
            tasks.append(("bond-orders", ("bonds", n, pi)))
    na = 4 if thorough else 3
    scopes.append({"name": "atoms", "n_max": na, "r_max": 1, "atom_palette": ATOM_PAL, "tables": ["default", RELAXED]})
    for n in range(1, na + 1):
        for pi, par in enumerate(E2.parent_vectors(n)):
            for first in range(len(ATOM_PAL)):
                tasks.append(("atoms", ("atoms", n, pi, first)))
    nl = 7 if thorough else 6
    scopes.append({"name": "lenient-spellings", "n_max": nl, "r_max": 2,
                   "desc": "non-standard spellings the encoder accepts: ring digits after the k-th branch, trailing "
                           "parenthesised branches (read by the reader in tolerant mode)", "tables": [RELAXED]})
    for n in range(3, nl + 1):
        for pi, par in enumerate(E2.parent_vectors(n)):
            tasks.append(("lenient-spellings", ("lenient", n, pi)))
    scopes.append({"name": "organic-brackets", "elements": ORG, "spellings": ["X", "[X]", "[XH]", "[XH2]", "[X+]", "[X-]", "[13X]", "[0X]", "[0XH]", "[00X-]", "[XH0]", "[X+0]"],
                   "contexts": ["S", "CS", "SC", "C(S)C", "S=C", "C1SC1", "S.S"], "tables": [RELAXED, "default"],
                   "desc": "every organic-subset element in plain and bracket spellings (a bracket atom has no implicit H)"})
    tasks.append(("organic-brackets", ("orgbr",)))
    from mc.oracles.misc import ELEMENTS
    els = sorted(ELEMENTS)
    scopes.append({"name": "every-element", "elements": len(els), "isotopes": ["", "13"], "chirality": ["", "@", "@@"],
                   "H": ["", "H1", "H2"], "charges": ["", "+", "-", "+2"], "atom_class": ["", ":1", ":12"],
                   "contexts": ["X", "CX", "C1XC1", "C(X)(F)Cl", "X=C", "X.X"],
                   "desc": "every element of the periodic table in every bracket form (element tables, one- and two-letter "
                           "symbols, 'H' itself)", "tables": [RELAXED]})
    for k in range(0, len(els), 8):
        tasks.append(("every-element", ("elements", els[k:k + 8])))
    nd = 6 if thorough else 5
    scopes.append({"name": "dot-inside-branch", "n_max": nd, "r_max": 1,
                   "desc": "legal OpenSMILES the encoder documents as unsupported: one (thorough: up to two) tree edge(s) written as "
                           "'.', incl. inside parenthesised branches.  The pinned encoder rejects the in-branch forms; a version that "
                           "starts accepting them must round-trip them (judged only when accepted)", "tables": [RELAXED]})
    for n in range(2, nd + 1):
        for pi, par in enumerate(E2.parent_vectors(n)):
            tasks.append(("dot-inside-branch", ("dots", n, pi, 2 if thorough else 1)))
    nu = 4 if thorough else 3
    scopes.append({"name": "documented-unsupported", "n_max": nu, "r_max": 1, "atom_palette": ["C", "*", "[*]", "[*H]", "[C@TH1]", "[C@TH2H]"],
                   "edge_symbols": ["", "=", "$"], "ring_symbols": ["", "$"],
                   "desc": "legal OpenSMILES the encoder documents as unsupported (wildcard atom, quadruple bond, spelled-out "
                           "tetrahedral class): rejected by the pinned encoder; judged only when accepted", "tables": [RELAXED]})
    for n in range(1, nu + 1):
        for pi, par in enumerate(E2.parent_vectors(n)):
            tasks.append(("documented-unsupported", ("unsup", n, pi)))
    scopes.append({"name": "fragments", "desc": "every ordered pair/triple of the written forms with <= 3 atoms, r <= 1 over "
                                                "{C,=,O,[O-]}, joined by '.'", "tables": ["default"]})
    for k in range(16):
        tasks.append(("fragments", ("frags", k, 16, thorough)))
    return {"scopes": scopes, "tasks": tasks,
            "bounds": {"topology": [nt, rt], "bond_orders_n": nb, "atoms_n": na},
            "weight": lambda t: t[1][1] if t[1][0] in ("topo", "bonds", "atoms", "lenient", "dots") else 3}


_SF = None
_CUR = [None]


def worker_init():
    global _SF
    import selfies
    _SF = selfies


def use(table):
    key = repr(table)
    if _CUR[0] != key:
        _SF.set_semantic_constraints(table if isinstance(table, str) else dict(table))
        _CUR[0] = key


def check(smi, table, r, want_accept=False, tolerant=False, dot_in_branch=False, ext=False):
    """one round trip under `table`; returns the SELFIES string or None"""
    use(table)
    r.evaluations += 1
    r.transitions += 1
    try:
        ain = smiread.read_smiles(smi, tolerant=tolerant, ring_across_dot=dot_in_branch, dot_in_branch=dot_in_branch, ext=ext)
    except smiread.SmiError as e:
        r.cov["generated form outside the reader's strict grammar"] += 1
        return None
    case = {"smiles": smi, "table": table}
    try:
        x = _SF.encoder(smi, strict=True)
    except _SF.EncoderError as e:
        r.cov["encoder rejects under table (C06's business)"] += 1
        if want_accept and table == RELAXED:
            # acceptance is demanded only of forms that respect the table (C06 decides the others)
            load = [0.0] * len(ain)
            for (a, b), o in smiread.bonds_of(ain).items():
                load[a] += o or 1
                load[b] += o or 1
            want_accept = all(load[i] + (ain[i].h or 0) <= RELAXED["?"] for i in range(len(ain)))
        if want_accept:
            r.violation("rejects-valid-form", case, "encoder(%r) raised EncoderError: %s" % (smi, str(e).strip()[:120]))
        return None
    except Exception as e:
        r.cov["encoder escapes with %s (C09's business)" % type(e).__name__] += 1
        return None
    try:
        y = _SF.decoder(x)
    except Exception as e:
        r.violation("decoder-raises:" + type(e).__name__, case, "decoder(%r) from %r: %r" % (x, smi, e))
        return None
    try:
        aout = smiread.read_smiles(y)
    except smiread.SmiError as e:
        r.violation("output-unreadable", case, "%r -> %r -> %r: %s" % (smi, x, y, e))
        return None
    v = roundtrip.compare_skeleton(ain, aout)
    if v:
        r.violation(v[0], case, "%r -> %r -> %r: %s" % (smi, x, y, v[1]))
        return None
    # the same SMILES through the encoder's other mode: whatever strict=False returns must round-trip as well
    try:
        x2 = _SF.encoder(smi, strict=False)
    except Exception as e:
        r.violation("nonstrict-rejects-what-strict-accepts", case, "%r: %r" % (smi, e))
        return None
    if x2 != x:
        try:
            y2 = _SF.decoder(x2)
            aout2 = smiread.read_smiles(y2)
        except Exception as e:
            r.violation("output-unreadable", case, "strict=False: %r -> %r: %r" % (smi, x2, e))
            return None
        v = roundtrip.compare_skeleton(ain, aout2)
        if v:
            r.violation("strict=False:" + v[0], case, "%r -> %r -> %r: %s" % (smi, x2, y2, v[1]))
            return None
    r.validated += 1
    r.nontrivial.add(h64(x))
    return x


def run(task):
    scope, arg = task
    r = Result()
    kind = arg[0]
    last = None
    if kind == "topo":
        _, n, pi, rmax = arg
        par = list(E2.parent_vectors(n))[pi]
        at, bt = ["C"] * n, [""] * n
        for rings in E2.ring_sets(n, par, rmax):
            deg = E2.degrees(n, par, rings)
            r.states += 1
            for dp in E2.digit_orders(rings):
                for sc in SCHEMES:
                    if (sc == "reuse" and dp is not None) or (not rings and sc != "fresh"):
                        continue
                    smi = E2.write(n, par, rings, at, bt, scheme=sc, digit_perm=dp)
                    x = check(smi, RELAXED, r, want_accept=True)
                    if max(deg) <= 4:
                        check(smi, "default", r, want_accept=True)
                    last = (smi, x)
    elif kind == "lenient":
        _, n, pi = arg
        par = list(E2.parent_vectors(n))[pi]
        at, bt = ["C"] * n, [""] * n
        for rings in E2.ring_sets(n, par, 2):
            r.states += 1
            for ds, pl in E2.lenient_variants(n, par, rings):
                smi = E2.write(n, par, rings, at, bt, digit_slot=ds, paren_last=pl)
                last = (smi, check(smi, RELAXED, r, want_accept=True, tolerant=True))
    elif kind == "orgbr":
        for el in ORG:
            for sp in ("%s", "[%s]", "[%sH]", "[%sH2]", "[%s+]", "[%s-]", "[13%s]", "[0%s]", "[0%sH]", "[00%s-]", "[%sH0]", "[%s+0]"):
                a = sp % el
                r.states += 1
                for ctx in ("%s", "C%s", "%sC", "C(%s)C", "%s=C", "C1%sC1", "%s.%s"):
                    smi = ctx % ((a,) * ctx.count("%s"))
                    last = (smi, check(smi, RELAXED, r, want_accept=True))
                    check(smi, "default", r)
    elif kind == "dots":
        _, n, pi, kmax = arg
        par = list(E2.parent_vectors(n))[pi]
        at = ["C"] * (n - 1) + ["O"]
        for rings in E2.ring_sets(n, par, 1):
            r.states += 1
            for k in range(1, kmax + 1):
                for cut in itertools.combinations(range(1, n), k):
                    bt = [""] * n
                    for i in cut:
                        bt[i] = "."
                    for sc in (("fresh", "two") if rings else ("fresh",)):
                        smi = E2.write(n, par, rings, at, bt, scheme=sc)
                        last = (smi, check(smi, RELAXED, r, dot_in_branch=True))
    elif kind == "unsup":
        _, n, pi = arg
        par = list(E2.parent_vectors(n))[pi]
        pal = ["C", "*", "[*]", "[*H]", "[C@TH1]", "[C@TH2H]"]
        for rings in E2.ring_sets(n, par, 1):
            r.states += 1
            for at in itertools.product(pal, repeat=n):
                for bts in itertools.product(["", "=", "$"], repeat=n - 1):
                    for rs in (("", "$") if rings else (None,)):
                        if all(a == "C" for a in at) and "$" not in bts and rs != "$":
                            continue
                        rt = {rings[0]: (rs, "")} if rings else None
                        smi = E2.write(n, par, rings, list(at), [""] + list(bts), ring_tok=rt)
                        last = (smi, check(smi, RELAXED, r, ext=True))
    elif kind == "elements":
        for el in arg[1]:
            for iso, chir, h, chg, cls in itertools.product(["", "13"], ["", "@", "@@"], ["", "H1", "H2"], ["", "+", "-", "+2"], ["", ":1", ":12"]):
                a = "[%s%s%s%s%s%s]" % (iso, el, chir, h, chg, cls)
                r.states += 1
                for ctx in ("%s", "C%s", "C1%sC1", "C(%s)(F)Cl", "%s=C", "%s.%s"):
                    smi = ctx % ((a,) * ctx.count("%s"))
                    last = (smi, check(smi, RELAXED, r, want_accept=True))
    elif kind == "bonds":
        _, n, pi = arg
        par = list(E2.parent_vectors(n))[pi]
        at = ["C"] * n
        for rings in E2.ring_sets(n, par, 1):
            r.states += 1
            for bt in itertools.product(BOND_PAL, repeat=n - 1):
                bt = [""] + list(bt)
                for rs in (RING_SYM if rings else [None]):
                    rt = {rings[0]: rs} if rings else None
                    for sc in (("fresh", "two") if rings else ("fresh",)):
                        smi = E2.write(n, par, rings, at, bt, ring_tok=rt, scheme=sc)
                        x = check(smi, RELAXED, r, want_accept=True)
                        check(smi, "default", r)
                        last = (smi, x)
    elif kind == "atoms":
        _, n, pi, first = arg
        par = list(E2.parent_vectors(n))[pi]
        bt = [""] * n
        for rings in E2.ring_sets(n, par, 1):
            r.states += 1
            for rest in itertools.product(ATOM_PAL, repeat=n - 1):
                at = [ATOM_PAL[first]] + list(rest)
                smi = E2.write(n, par, rings, at, bt)
                x = check(smi, RELAXED, r)
                check(smi, "default", r)
                last = (smi, x)
    else:
        _, k, nsh, thorough = arg
        forms = []
        for n in (1, 2, 3):
            for par in E2.parent_vectors(n):
                for rings in E2.ring_sets(n, par, 1):
                    for at in itertools.product(["C", "O", "[O-]"], repeat=n):
                        for b1 in (["", "="] if n > 1 else [""]):
                            bt = [""] * n
                            if n > 1:
                                bt[1] = b1
                            forms.append(E2.write(n, par, rings, list(at), bt))
        forms = sorted(set(forms))
        cnt = 0
        for a in forms:
            for b in forms:
                cnt += 1
                if cnt % nsh != k:
                    continue
                r.states += 1
                x = check(a + "." + b, "default", r)
                if thorough or cnt % 7 == 0:
                    check(a + "." + b + "." + a, "default", r)
                last = (a + "." + b, x)
    if last:
        r.sample({"scope": scope, "smiles": last[0], "encoder": last[1]}, 1)
    return r


def replay(case):
    worker_init()
    r = Result()
    check(case["smiles"], case["table"], r)
    return [(sig, v[0]["detail"]) for sig, v in r.viol.items()]
