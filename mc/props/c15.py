"""C15 - label / one-hot encodings are exact inverses of their decoders.

Exhaustive small scope: every non-empty vocabulary (every subset of five symbols x every bijection onto 0..n-1)
x every well-formed string of <= 3 symbols over the five-symbol universe (so also strings with symbols missing from the
vocabulary) x pad_to_len in -1..5 x enc_type in {label, one_hot, both, 'x', ''}, against a ten-line reference.
"""
import itertools

from mc.oracles import misc
from mc.runner import Result, h64

PROPERTY = "C15"
RULE = ("state = (vocabulary, string) pair, transition = one API call with a (pad, enc_type) argument; every "
        "combination in the stated finite grid is executed; non-trivial = distinct successful (label, one-hot) results")
ASSUMPTIONS = [
    "reference semantics: ten lines in this module (ref_encode), written from the property statement",
    "'raise instead of returning wrong data' accepts any exception class",
    "the empty vocabulary is excluded (flat-hot reshaping by len(vocab)=0 is undefined)",
]

UNIVERSE = ["[C]", "[O]", "[=N]", "[nop]", "."]
PADS = [-1, 0, 1, 2, 3, 4, 5]
ENC = ["label", "one_hot", "both", "x", ""]


def all_strings(maxsym):
    out = []
    syms = UNIVERSE[:4]
    for l in range(0, maxsym + 1):
        for w in itertools.product(syms, repeat=l):
            if l == 0:
                out.append(((), ""))
                continue
            for mask in range(1 << l):          # a dot may follow every symbol, also the last one
                toks = []
                for i in range(l):
                    toks.append(w[i])
                    if mask >> i & 1:
                        toks.append(".")
                out.append((tuple(toks), "".join(toks)))
    return out


def vocabularies():
    vs = []
    for k in range(1, len(UNIVERSE) + 1):
        for sub in itertools.combinations(UNIVERSE, k):
            for perm in itertools.permutations(range(k)):
                vs.append(dict(zip(sub, perm)))
    return vs


def plan(tier, seed):
    thorough = tier == "thorough"
    vs = vocabularies()
    maxsym = 4 if thorough else 3
    nsh = 64
    tasks = [("grid", (k, nsh, maxsym)) for k in range(nsh)]
    tasks += [("batch", (k, nsh)) for k in range(nsh)]
    scopes = [
        {"name": "grid", "vocabularies": len(vs), "strings": len(all_strings(maxsym)), "pads": PADS, "enc_types": ENC,
         "desc": "selfies_to_encoding on the full grid; encoding_to_selfies on every successful label and one-hot result, "
                 "on wrong enc_type, on out-of-vocabulary labels"},
        {"name": "batch", "desc": "batch_selfies_to_flat_hot / batch_flat_hot_to_selfies on every ordered pair (and the "
                                  "empty and singleton batches) of strings with <= 2 symbols, every vocabulary, pads -1,2,4; "
                                  "truncated (non-divisible) flat vectors must raise"},
    ]
    return {"scopes": scopes, "tasks": tasks, "bounds": {"max_symbols": maxsym, "vocab_universe": UNIVERSE}}


_SF = None


def worker_init():
    global _SF
    import selfies
    _SF = selfies


def ref_encode(toks, stoi, pad):
    """(labels, one_hot) or None when the call must raise"""
    toks = list(toks)
    if pad > len(toks):
        toks += ["[nop]"] * (pad - len(toks))
    if any(t not in stoi for t in toks):
        return None
    lab = [stoi[t] for t in toks]
    hot = [[1 if j == i else 0 for j in range(len(stoi))] for i in lab]
    return lab, hot


def call(f, *a, **k):
    try:
        return ("ok", f(*a, **k))
    except Exception as e:
        return ("raises", type(e).__name__)


def _fresh(x):
    return "".join(list(x)) if isinstance(x, str) else x


class _Str(str):
    pass


class _Vocab(dict):
    """a dict subclass a caller may legitimately use as vocabulary (e.g. with a default for unknown symbols); here
    without any changed behaviour"""
    pass


def run_grid(arg, r):
    k, nsh, maxsym = arg
    strings = all_strings(maxsym)
    for vi, stoi in enumerate(vocabularies()):
        if vi % nsh != k:
            continue
        itos = {i: s for s, i in stoi.items()}
        r.states += 1
        for toks, s in strings:
            for pad in PADS:
                exp = ref_encode(toks, stoi, pad)
                for enc in ENC:
                    r.evaluations += 1
                    r.transitions += 1
                    # arguments are passed as freshly built objects (equal to, but not identical with, any literal in the library:
                    # strings arriving from files, JSON or the command line are never interned)
                    got = call(_SF.selfies_to_encoding, s, {_fresh(k): v for k, v in stoi.items()}, pad_to_len=pad, enc_type=_fresh(enc))
                    case = {"kind": "encode", "selfies": s, "vocab": stoi, "pad": pad, "enc_type": enc}
                    if enc not in ("label", "one_hot", "both") or exp is None:
                        if got[0] != "raises":
                            r.violation("encode:should-raise", case, "returned %r" % (got[1],))
                        else:
                            r.validated += 1
                        continue
                    want = {"label": exp[0], "one_hot": exp[1], "both": (exp[0], exp[1])}[enc]
                    if got != ("ok", want):
                        r.violation("encode:wrong-" + enc, case, "got %r expected %r" % (got, want))
                        continue
                    r.validated += 1
                    r.nontrivial.add(h64((tuple(exp[0]), len(stoi))))
                # the documented defaults (pad_to_len=-1, enc_type='both') and positional passing; arguments of other legal
                # types: a str subclass, an OrderedDict / a read-only mapping-like dict subclass for the vocabulary
                if pad == -1:
                    variants = [("defaults", lambda: _SF.selfies_to_encoding(s, dict(stoi))),
                                ("positional", lambda: _SF.selfies_to_encoding(s, dict(stoi), -1, "both")),
                                ("str-subclass", lambda: _SF.selfies_to_encoding(_Str(s), dict(stoi), pad_to_len=-1, enc_type="both")),
                                ("dict-subclass", lambda: _SF.selfies_to_encoding(s, _Vocab(stoi), pad_to_len=-1, enc_type="both"))]
                    for vname, fn in variants:
                        r.evaluations += 1
                        try:
                            got = ("ok", fn())
                        except Exception as e:
                            got = ("raises", type(e).__name__)
                        case = {"kind": "encode", "selfies": s, "vocab": stoi, "pad": -1, "enc_type": "both", "variant": vname}
                        if exp is None:
                            if got[0] != "raises":
                                r.violation("encode:should-raise", case, "%s: returned %r" % (vname, got[1]))
                            else:
                                r.validated += 1
                        elif got != ("ok", (ref_encode(toks, stoi, -1)[0], ref_encode(toks, stoi, -1)[1])):
                            r.violation("encode:wrong-both", case, "%s: got %r" % (vname, got))
                        else:
                            r.validated += 1
                if exp is None:
                    continue
                # decoding side, from the reference encodings (so a wrong encoder cannot mask a wrong decoder)
                padded = s + "[nop]" * max(0, pad - len(toks))
                for enc, data in (("label", exp[0]), ("one_hot", exp[1])):
                    r.evaluations += 1
                    got = call(_SF.encoding_to_selfies, [list(x) if isinstance(x, list) else x for x in data],
                               {i: _fresh(k) for i, k in itos.items()}, enc_type=_fresh(enc))
                    if got != ("ok", padded):
                        r.violation("decode:wrong-" + enc, {"kind": "decode", "data": data, "vocab": stoi, "enc_type": enc},
                                    "got %r expected %r" % (got, padded))
                    else:
                        r.validated += 1
                if pad == -1:
                    for enc in ("both", "x", ""):
                        r.evaluations += 1
                        got = call(_SF.encoding_to_selfies, list(exp[0]), dict(itos), enc_type=enc)
                        if got[0] != "raises":
                            r.violation("decode:should-raise", {"kind": "decode", "data": exp[0], "vocab": stoi,
                                                                "enc_type": enc}, "returned %r" % (got[1],))
                        else:
                            r.validated += 1
                    r.evaluations += 1
                    got = call(_SF.encoding_to_selfies, list(exp[0]) + [len(stoi)], dict(itos), enc_type="label")
                    if got[0] != "raises":
                        r.violation("decode:should-raise", {"kind": "decode", "data": list(exp[0]) + [len(stoi)],
                                                            "vocab": stoi, "enc_type": "label"}, "returned %r" % (got[1],))
                    else:
                        r.validated += 1
    r.sample({"scope": "grid", "selfies": "[C].[=N]", "vocab": {"[C]": 1, ".": 0, "[=N]": 2, "[nop]": 3}, "pad": 5,
              "expected_label": [1, 0, 2, 3, 3]}, 1)


_SHARED_STOI = {}      # one dict object, re-filled in place for every vocabulary (same id, often same size)


def run_batch(arg, r):
    k, nsh = arg
    strings = all_strings(2)
    for vi, stoi in enumerate(vocabularies()):
        if vi % nsh != k:
            continue
        _SHARED_STOI.clear()
        _SHARED_STOI.update(stoi)
        itos = {i: s for s, i in stoi.items()}
        M = len(stoi)
        r.states += 1
        for pad in (-1, 2, 4):
            enc = {}
            for toks, s in strings:
                e = ref_encode(toks, stoi, pad)
                enc[s] = None if e is None else ([x for row in e[1] for x in row], s + "[nop]" * max(0, pad - len(toks)))
            batches = [[]] + [[s] for _, s in strings] + [[a, b] for _, a in strings for _, b in strings]
            for batch in batches:
                r.evaluations += 1
                r.transitions += 1
                got = call(_SF.batch_selfies_to_flat_hot, list(batch), dict(stoi), pad)
                case = {"kind": "batch", "batch": batch, "vocab": stoi, "pad": pad}
                if len(batch) == 2:
                    # the same call through a dict *object* that earlier calls saw with other contents, and through a
                    # freshly built literal-style dict (whose address may be a recycled one)
                    for alt in (_SHARED_STOI, {a: b for a, b in stoi.items()}):
                        g2 = call(_SF.batch_selfies_to_flat_hot, list(batch), alt, pad)
                        r.evaluations += 1
                        if g2 != got:
                            r.violation("batch-encode:depends-on-vocabulary-object-identity", case,
                                        "same vocabulary contents, different dict object: %r vs %r" % (g2, got))
                if any(enc[s] is None for s in batch):
                    if got[0] != "raises":
                        r.violation("batch-encode:should-raise", case, "returned %r" % (got[1],))
                    else:
                        r.validated += 1
                    continue
                want = [enc[s][0] for s in batch]
                if got != ("ok", want):
                    r.violation("batch-encode:wrong", case, "got %r expected %r" % (got, want))
                    continue
                back = call(_SF.batch_flat_hot_to_selfies, [list(v) for v in want], dict(itos))
                wantback = [enc[s][1] for s in batch]
                if back != ("ok", wantback):
                    r.violation("batch-decode:wrong", case, "got %r expected %r" % (back, wantback))
                    continue
                r.validated += 1
                r.nontrivial.add(h64((tuple(map(tuple, want)), M)))
                if M > 1 and batch and want[-1]:
                    r.evaluations += 1
                    rag = [list(v) for v in want]
                    rag[-1] = rag[-1][:-1]
                    g2 = call(_SF.batch_flat_hot_to_selfies, rag, dict(itos))
                    if g2[0] != "raises":
                        r.violation("batch-decode:ragged-should-raise", dict(case, ragged=True), "returned %r" % (g2[1],))
    r.sample({"scope": "batch", "batch": ["[C]", "[C].[O]"], "vocab": {"[C]": 0, "[O]": 1, ".": 2, "[nop]": 3}, "pad": 4}, 1)


def run(task):
    r = Result()
    if task[0] == "grid":
        run_grid(task[1], r)
    else:
        run_batch(task[1], r)
    return r


def replay(case):
    worker_init()
    k = case["kind"]
    if k == "encode":
        toks = misc.tokenize(case["selfies"])
        exp = ref_encode(toks, case["vocab"], case["pad"])
        got = call(_SF.selfies_to_encoding, case["selfies"], dict(case["vocab"]), pad_to_len=case["pad"], enc_type=case["enc_type"])
        enc = case["enc_type"]
        if enc not in ("label", "one_hot", "both") or exp is None:
            return [] if got[0] == "raises" else [("encode:should-raise", repr(got))]
        want = {"label": exp[0], "one_hot": exp[1], "both": (exp[0], exp[1])}[enc]
        return [] if got == ("ok", want) else [("encode:wrong-" + enc, "got %r expected %r" % (got, want))]
    if k == "decode":
        itos = {int(i): s_ for s_, i in case["vocab"].items()}
        got = call(_SF.encoding_to_selfies, case["data"], itos, enc_type=case["enc_type"])
        enc = case["enc_type"]
        labels = case["data"] if not (case["data"] and isinstance(case["data"][0], list)) else [row.index(1) for row in case["data"]]
        if enc not in ("label", "one_hot") or any(i not in itos for i in labels):
            return [] if got[0] == "raises" else [("decode:should-raise", repr(got))]
        want = "".join(itos[i] for i in labels)
        return [] if got == ("ok", want) else [("decode:wrong-" + enc, "got %r expected %r" % (got, want))]
    stoi = case["vocab"]
    itos = {int(i): s_ for s_, i in stoi.items()}
    encs = [ref_encode(misc.tokenize(x), stoi, case["pad"]) for x in case["batch"]]
    got = call(_SF.batch_selfies_to_flat_hot, list(case["batch"]), dict(stoi), case["pad"])
    if any(e is None for e in encs):
        return [] if got[0] == "raises" else [("batch-encode:should-raise", repr(got))]
    want = [[x for row in e[1] for x in row] for e in encs]
    if got != ("ok", want):
        return [("batch-encode:wrong", "got %r expected %r" % (got, want))]
    wantback = ["".join(itos[i] for i in e[0]) for e in encs]
    if case.get("ragged"):
        rag = [list(v) for v in want]
        rag[-1] = rag[-1][:-1]
        g2 = call(_SF.batch_flat_hot_to_selfies, rag, dict(itos))
        return [] if g2[0] == "raises" else [("batch-decode:ragged-should-raise", repr(g2))]
    back = call(_SF.batch_flat_hot_to_selfies, [list(v) for v in want], dict(itos))
    return [] if back == ("ok", wantback) else [("batch-decode:wrong", "got %r expected %r" % (back, wantback))]
