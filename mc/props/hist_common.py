"""Shared explicit-state exploration of API-call histories (E3) for C11 and C12.

state      = the library's module-level state after a history of calls (+ the objects the caller still holds)
transition = one menu operation applied to the real library
search     = breadth first, level by level; a state is rebuilt by replaying its history on a restored library;
             deduplication by structural fingerprint (all module-level containers of every selfies.* module,
             aliasing relations, lru_cache contents by destructive probing on a throw-away replay, the caller-held
             objects and whether they alias library state)
oracle     = evaluated after every transition (in every state), see check_state()
O4         = Model: a dict for the current table; "returns copies"; "a rejected update changes nothing"
"""
import copy
import json
import os
import re
import subprocess
import sys

from mc import hist_explorer as H
from mc.oracles.misc import ELEMENTS
from mc.runner import Result, h64, REPO, VERIF

T1 = {"?": 3, "C": 1, "N": 5, "Si": 2}
T2 = {"?": 0, "O": 9, "C+1": 2, "Fe+10": 4}
T1SUB = {"?": 3, "C": 1}                       # T1 with keys dropped, nothing else changed
T1MOD = {"?": 3, "C": 1, "N": 2, "Si": 2}      # T1 with one value changed

PROBES_D = ["[C][nop][#C][nop]", "[C][#C]", "[N][=N][#N]", "[Si][=C][Branch1][C][O][F]", "[C][C][C][Ring1][Ring1]", "[N+1][=C][O].[Xe][F]",
            "[CH1][Branch1][C][Cl][#C]", "[S][=O][=O][=O]", "[C+1][#C]", "[O][=O][F]", "[Fe+10][=C][=C]",
            "[C][=Branch1][C][=O][#N]", "[P][#P][Cl][Cl]",
            # two- and three-symbol indices with a non-zero high digit, long enough for the value to matter
            "[C]" * 20 + "[Ring2][Ring1][C]", "[N][Branch2][Ring1][Ring1]" + "[C]" * 19 + "[O]",
            "[C]" * 20 + "[Ring3][C][Ring1][Ring1][Branch3][C][C][P][N][O]"]
PROBES_E = ["C#N", "c1ccccc1", "[Si](C)(C)(C)C", "O=S(=O)(O)O", "[NH4+]", "C(F)(F)(F)(F)F", "C=[C+]C", "[Fe+10]C",
            "O=s1cccc1", "Cp1(=O)cccc1", "c1ccc2[nH]ccc2c1",
            "C=1CCCCC=1", "O=S1CCCC=1"]        # bond symbols on ring-closure digits (built by the parser's ring-bond path)
CAP_KEYS = [("C", 0), ("N", 0), ("N", 1), ("Si", 0), ("O", 0), ("F", 0), ("Xe", 0), ("C", 1), ("S", 0), ("Cl", 0),
            ("Fe", 10), ("H", 0), ("P", 0), ("Fe", 0)]
LRU_KEYS = {"get_bonding_capacity": CAP_KEYS, "get_semantic_robust_alphabet": [()]}

_SF = None
_PRESETS = None
_REF = {}
_KEY_RE = re.compile(r"^([A-Z][a-z]?)(?:[+-]([1-9][0-9]*))?\Z", re.ASCII)


def worker_init():
    global _SF, _PRESETS
    import selfies
    _SF = selfies
    H.walker()                       # snapshot of the import-time state, before anything else touches the library
    _PRESETS = {n: _SF.get_preset_constraints(n) for n in ("default", "octet_rule", "hypervalent")}
    H.restore()


def canon(o):
    return H.walker().canon(o)


class Model:
    """O4 - what the documentation promises about the configuration API"""

    def __init__(self):
        self.table = dict(_PRESETS["default"])

    @staticmethod
    def valid_key(k):
        if k == "?":
            return True
        if not isinstance(k, str):
            return False
        m = _KEY_RE.match(k)
        return bool(m) and m.group(1) in ELEMENTS

    def set(self, arg):
        """returns 'ok' or 'ValueError'"""
        if isinstance(arg, str):
            if arg in _PRESETS:
                self.table = dict(_PRESETS[arg])
                return "ok"
            return "ValueError"
        if isinstance(arg, dict):
            good = "?" in arg and all(self.valid_key(k) and isinstance(v, int) and not isinstance(v, bool) and v >= 0
                                      for k, v in arg.items())
            if good:
                self.table = dict(arg)
                return "ok"
            return "ValueError"
        return "ValueError"


# ------------------------------------------------------------------ menu
class Op:
    def __init__(self, name, fn, kind):
        self.name, self.fn, self.kind = name, fn, kind

    def __repr__(self):
        return self.name


def _as_kind(arg, kind):
    import collections
    if kind == "defaultdict":
        return collections.defaultdict(int, arg)
    if kind == "OrderedDict":
        return collections.OrderedDict(sorted(arg.items(), reverse=True))
    if kind == "subclass":
        class Table(dict):
            def __missing__(self, k):
                return 7
        return Table(arg)
    if isinstance(arg, str):
        return "".join(list(arg))       # a fresh object: names read from a file or the command line are never interned
    if type(arg) is dict:
        return {("".join(list(k)) if isinstance(k, str) else k): v for k, v in arg.items()}
    return copy.deepcopy(arg)


def op_set(arg, label=None, kind=None):
    def f(ctx, model):
        a = _as_kind(arg, kind)
        ctx["passed"] = a
        try:
            r = _SF.set_semantic_constraints(a)
            obs = "ok" if r is None else "returned %r" % (r,)
        except ValueError:
            obs = "ValueError"
        except Exception as e:
            obs = type(e).__name__
        return obs, model.set(arg)
    return Op("set(%s)" % (label or json.dumps(arg, sort_keys=True)), f, "config")


def _unordered(d):
    return ("dict", tuple(sorted((repr(k), repr(v)) for k, v in d.items()))) if isinstance(d, dict) else repr(d)


def _op_get(ctx, model):
    g = _SF.get_semantic_constraints()
    ctx["got"] = g
    # equality of tables is dict equality: the order in which the caller listed the keys is not part of it
    return _unordered(g), _unordered(model.table)


def _op_mut_got(ctx, model):
    g = ctx.get("got")
    if isinstance(g, dict):
        g["C"] = 0
        g["Zz"] = 7
        g.pop("?", None)
    return None, None


def _op_mut_passed(ctx, model):
    p = ctx.get("passed")
    if isinstance(p, dict):
        p["C"] = 0
        p["N"] = 0
        p.pop("?", None)
    return None, None


def _op_set_passed_again(ctx, model):
    """re-submit the very object passed to the previous set call (possibly mutated by the caller in between)"""
    p = ctx.get("passed")
    if not isinstance(p, dict):
        return None, None
    snapshot = copy.deepcopy(p)
    try:
        r = _SF.set_semantic_constraints(p)
        obs = "ok" if r is None else "returned %r" % (r,)
    except ValueError:
        obs = "ValueError"
    except Exception as e:
        obs = type(e).__name__
    return obs, model.set(snapshot)


def _op_set_got(ctx, model):
    """get-modify-set with the dict handed out by the getter"""
    g = ctx.get("got")
    if not isinstance(g, dict):
        return None, None
    snapshot = copy.deepcopy(g)
    ctx["passed"] = g
    try:
        r = _SF.set_semantic_constraints(g)
        obs = "ok" if r is None else "returned %r" % (r,)
    except ValueError:
        obs = "ValueError"
    except Exception as e:
        obs = type(e).__name__
    return obs, model.set(snapshot)


def _op_mut_passed_valid(ctx, model):
    p = ctx.get("passed")
    if isinstance(p, dict) and "?" in p:
        p["N"] = 1
        p["Ge"] = 3
    return None, None


def op_preset(name):
    def f(ctx, model):
        try:
            p = _SF.get_preset_constraints("".join(list(name)))
        except ValueError:
            return "ValueError", ("ValueError" if name not in _PRESETS else "dict")
        ctx["preset"] = p
        return canon(p), (canon(_PRESETS[name]) if name in _PRESETS else "ValueError")
    return Op("get_preset(%s)" % name, f, "config")


def _op_mut_preset(ctx, model):
    p = ctx.get("preset")
    if isinstance(p, dict):
        p["C"] = 0
        p["S"] = 1
        p.pop("N", None)
    return None, None


def ref_alphabet(table):
    k = ("alpha", repr(sorted(table.items())))
    if k not in _REF:
        H.restore()
        _SF.set_semantic_constraints(dict(table))
        _REF[k] = set(_SF.get_semantic_robust_alphabet())
        H.restore()
    return _REF[k]


def _op_alpha(ctx, model):
    a = _SF.get_semantic_robust_alphabet()
    ctx["alpha"] = a
    return None, None          # judged by check_state (needs the reference alphabet, computed on a restored library)


def _op_mut_alpha(ctx, model):
    a = ctx.get("alpha")
    if isinstance(a, set):
        a.add("[Foo]")
        a.discard("[C]")
    return None, None


def op_dec(x, **kw):
    def f(ctx, model):
        try:
            r = _SF.decoder(x, **kw)
            if isinstance(r, tuple):
                for am in r[1]:
                    am.token = "ZZ"
                    if am.attribution:
                        for a in am.attribution:
                            a.index = -5
                        am.attribution.clear()
        except _SF.DecoderError:
            pass
        except Exception:
            pass        # an escaping exception is C08's finding; here only its effect on later calls matters
        return None, None
    return Op("decoder(%r%s)" % (x, "".join(",%s=%s" % kv for kv in kw.items())), f, "translate")


def op_enc(s, **kw):
    def f(ctx, model):
        try:
            r = _SF.encoder(s, **kw)
            if isinstance(r, tuple):
                for am in r[1]:
                    am.token = "ZZ"
                    if am.attribution:
                        am.attribution.clear()
        except _SF.EncoderError:
            pass
        except Exception:
            pass
        return None, None
    return Op("encoder(%r%s)" % (s, "".join(",%s=%s" % kv for kv in kw.items())), f, "translate")


CONFIG_OPS = [
    op_set("default"), op_set("octet_rule"), op_set("hypervalent"), op_set(T1), op_set(T2),
    op_set(T1SUB, "T1-with-keys-dropped"), op_set(T1MOD, "T1-with-one-value-changed"),
    op_set(T1, "T1-as-defaultdict", "defaultdict"), op_set(T2, "T2-as-OrderedDict-reversed", "OrderedDict"),
    op_set(T1SUB, "T1SUB-as-dict-subclass-with-__missing__", "subclass"),
    op_set({"C": 4}, "missing-?"), op_set({"?": 1, "Xx": 2}, "bad-element"), op_set({"?": 1, "C": -1}, "negative"),
    op_set({"?": 2, "C": 1, "N": 1.5}, "non-integer-after-valid-entries"), op_set("nope", "unknown-preset"),
    op_set(5, "wrong-type"), op_set({"?": 1, "C+0": 1}, "charge-zero-key"),
    Op("get", _op_get, "config"), Op("mutate-got", _op_mut_got, "mutate"), Op("mutate-passed", _op_mut_passed, "mutate"),
    Op("mutate-passed-keeping-it-valid", _op_mut_passed_valid, "mutate"), Op("set(same object as last time)", _op_set_passed_again, "config"),
    Op("set(dict from get)", _op_set_got, "config"),
    op_preset("default"), op_preset("octet_rule"), op_preset("nope"), Op("mutate-preset", _op_mut_preset, "mutate"),
    Op("alphabet", _op_alpha, "config"), Op("mutate-alphabet", _op_mut_alpha, "mutate"),
]
def _rejection_grid():
    """every way a table can be illegal (documented list: missing '?', malformed key, negative or non-integer capacity),
    at every kind of key ('?', a listed element, a charged key, an element only '?' covers elsewhere), with the offending
    entry first and last in the dict (the validation loop must finish before anything is assigned)"""
    base = [("?", 2), ("C", 4), ("N+1", 4), ("Ge", 3)]
    ops = []
    for bad_key, _ in base:
        for bad in (-1, 2.5, "3", None):
            for first in (True, False):
                rest = [(k, v) for k, v in base if k != bad_key]
                items = [(bad_key, bad)] + rest if first else rest + [(bad_key, bad)]
                ops.append(_op_set_items(items, "%s=%r %s" % (bad_key, bad, "first" if first else "last")))
    for key in ("C+", "+1", "C1", "c", "C+-1", "", "C +1", "C+1.0", "?+1", "C++", "Xx-1", "C+01", "C-0", "C+\u0661", "[C]", "C "):
        for first in (True, False):
            items = [(key, 1)] + base if first else base + [(key, 1)]
            ops.append(_op_set_items(items, "key %r %s" % (key, "first" if first else "last")))
    return ops


def _op_set_items(items, label):
    def f(ctx, model):
        a = dict(items)
        ctx["passed"] = a
        try:
            r = _SF.set_semantic_constraints(a)
            obs = "ok" if r is None else "returned %r" % (r,)
        except ValueError:
            obs = "ValueError"
        except Exception as e:
            obs = type(e).__name__
        return obs, model.set(dict(items))
    return Op("set(grid: %s)" % label, f, "config")


REJECTION_GRID = _rejection_grid()


def _key_neighbourhood():
    """edit-distance-1 neighbourhood of valid keys: every ASCII character (control characters included) and three non-ASCII
    ones inserted at / replacing every position, every deletion; the model decides which neighbours are valid keys"""
    chars = [chr(c) for c in range(128)] + ["\u0661", "\u00b2", "\u2028"]
    seen, ops = set(), []
    for seed in ("C", "Cl", "Fe+2", "N-1", "O+12"):
        cand = [seed[:i] + seed[i + 1:] for i in range(len(seed))]
        for i in range(len(seed) + 1):
            for ch in chars:
                cand.append(seed[:i] + ch + seed[i:])
                if i < len(seed):
                    cand.append(seed[:i] + ch + seed[i + 1:])
        for k in cand:
            if k not in seen and k != "?":
                seen.add(k)
                ops.append(_op_set_items([("?", 2), ("S", 1), (k, 3)], "key %r next to valid entries" % k))
    return ops


KEY_NEIGHBOURHOOD = _key_neighbourhood()

TRANSLATE_OPS = [
    op_dec("[Si][=C][N+1][Ring1][Ring1]"), op_dec("[C][Xe][Foo]"), op_dec("[C][nop][#C][nop]"),
    op_dec("[C][C][C][Ring1][Ring1][Branch1][Ring1][C][Foo]"),          # fails with a ring queued and a branch open
    op_dec("[C][C][=Ring1][C].[N][C][C][Ring1][Ring2][CH9]", attribute=True),   # fails in the 2nd fragment, rings pending
    op_dec("[C][Branch1][Ring2][C][Branch1][C][Foo]", attribute=True),            # fails inside a nested branch, attributed
    op_enc("C1CC1C(C)(C"), op_enc("c1ccccc1C(F)(F)(F)(F)F"), op_enc("C1CC1c1cccc1", attribute=True),   # fail late op_dec("[C][N].[O]", attribute=True),
    op_dec("[C@@Hexpl][Branch1_2][C][O]", compatible=True), op_dec("[CH1][#C][Fe+10]"),
    op_enc("c1ccccc1[Si]"), op_enc("C(F)(F)(F)(F)F"), op_enc("CN", attribute=True), op_enc("C(F)(F)(F)(F)F", strict=False),
    op_enc("[CH]1=[N+]C1"),
    # irregular but accepted decoder input: a non-index symbol / nothing at all where an index symbol is read
    op_dec("[C][C][C][Ring1][F]"), op_dec("[C][C][C][C][Ring2][Xe]"), op_dec("[C][C][Branch2][Ring1]"),
    # the very strings the probes use, whose outcome differs between the menu's tables (a result remembered from an earlier
    # call under another table must not be served)
    op_enc("O=S(=O)(O)O"), op_dec("[S][=O][=O][=O]"),
]


# ------------------------------------------------------------------ probes (C11's oracle)
def _plain(res):
    if isinstance(res, tuple):
        return [res[0], [(a.index, a.token, [(x.index, x.token) for x in (a.attribution or [])]) for a in res[1]]]
    return res


def probe():
    r = []
    for x, f in (("[C][N][Branch1][C][P][C][C][Ring1][=Branch1]", "decoder"), ("[C][O].[N][=Branch1][C][=O][F]", "decoder"),
                 ("C1([O-])C=CC=C1Cl", "encoder")):
        try:
            r.append(_plain(getattr(_SF, f)(x, attribute=True)))
        except (_SF.DecoderError, _SF.EncoderError):
            r.append("rejected")
        except Exception as e:
            r.append("escaped " + type(e).__name__)
    for x in PROBES_D:
        try:
            r.append(_SF.decoder(x))
        except _SF.DecoderError:
            r.append("DecoderError")
        except Exception as e:
            r.append("escaped " + type(e).__name__)
    for s in PROBES_E:
        for strict in (False, True):
            try:
                r.append(_SF.encoder(s, strict=strict))
            except _SF.EncoderError:
                r.append("EncoderError")
            except Exception as e:
                r.append("escaped " + type(e).__name__)
    return r


def ref_probe(table):
    k = ("probe", repr(sorted(table.items())))
    if k not in _REF:
        H.restore()
        _SF.set_semantic_constraints(dict(table))
        _REF[k] = probe()
        H.restore()
    return _REF[k]


def _enc_nonstrict():
    out = []
    for s in PROBES_E:
        try:
            out.append(_SF.encoder(s, strict=False))
        except _SF.EncoderError:
            out.append("EncoderError")
        except Exception as e:
            out.append("escaped " + type(e).__name__)
    return out


def ref_probe_nonstrict_fresh():
    """encoder(s, strict=False) on a fresh library under its import-time table: C11 promises the same result
    'regardless of the table', so this single reference applies in every state"""
    k = ("enc-fresh",)
    if k not in _REF:
        H.restore()
        _REF[k] = _enc_nonstrict()
        H.restore()
    return _REF[k]


# ------------------------------------------------------------------ replay / fingerprint / oracle
def replay(menu, hist):
    """returns (ctx, model, [(obs, exp) per step])"""
    H.restore()
    ctx, model = {}, Model()
    obs = []
    for i in hist:
        obs.append(menu[i].fn(ctx, model))
    return ctx, model, obs


def state_fingerprint(menu, hist):
    ctx, model, _ = replay(menu, hist)
    w = H.walker()
    tracked = {id(o) for o, _ in w.containers.values()}
    held = []
    for k in sorted(ctx):
        o = ctx[k]
        alias = id(o) in tracked
        if k == "alpha" and isinstance(o, set):
            try:
                alias = alias or (_SF.get_semantic_robust_alphabet() is o)
            except Exception:
                pass
        held.append((k, canon(o), alias))
    fp = H.fingerprint(LRU_KEYS)
    return h64((fp, held))


def check_state(menu, hist, r, use_probes, prop, check_config=True):
    """apply the last op of hist to the state reached by hist[:-1] and evaluate the oracle in the new state"""
    ctx, model, obs = replay(menu, hist)
    # references are computed on a *restored* library; make sure they exist before the state is examined, and rebuild
    # the state if computing them disturbed it (only on the first use of a table in this worker)
    n0 = len(_REF)
    if check_config:
        ref_alphabet(model.table)
    if use_probes:
        ref_probe(model.table)
        ref_probe_nonstrict_fresh()
    if len(_REF) != n0:
        ctx, model, obs = replay(menu, hist)
    names = [menu[i].name for i in hist]
    case = {"history": names}
    ok = True
    o, e = obs[-1] if obs else (None, None)
    if not names:
        names = ["<initial state>"]
    if o != e:
        ok = False
        r.violation("config-call-observation:" + re.sub(r"\(.*", "", names[-1]), case,
                    "after %r the call %s observed %r but the configuration model says %r" % (names[:-1], names[-1], o, e))
    # getters faithful in the new state (each getter result is a fresh object, mutating nothing)
    try:
        g = _SF.get_semantic_constraints()
    except Exception as ex:
        g = "raises %r" % ex
    if g != model.table:
        ok = False
        sig = "get-differs-from-model"
        if isinstance(g, dict) and any("mutate" in n for n in names):
            sig = "get-differs-from-model-after-caller-mutation"
        r.violation(sig, case, "get_semantic_constraints()=%r, model %r" % (g, model.table))
    for pn, pv in _PRESETS.items():
        try:
            got = _SF.get_preset_constraints(pn)
        except Exception as ex:
            got = "raises %r" % ex
        if got != pv:
            ok = False
            r.violation("preset-changed", case, "preset %s is now %r" % (pn, got))
            break
    if isinstance(g, dict) and g == model.table and not check_config:
        pass
    elif isinstance(g, dict) and g == model.table:
        try:
            a = set(_SF.get_semantic_robust_alphabet())
        except Exception as ex:
            a = "raises %r" % ex
        exp = ref_alphabet(model.table)
        if a != exp:
            ok = False
            extra, missing = (a - exp, exp - a) if isinstance(a, set) else (a, None)
            if isinstance(a, set) and extra <= {"[Foo]"} and missing <= {"[C]"} and "mutate-alphabet" in names:
                sig = "alphabet-getter-hands-out-its-cached-set"
            else:
                sig = "alphabet-differs-from-reference"
            r.violation(sig, case, "alphabet has extra %r, misses %r" % (sorted(extra)[:5] if isinstance(extra, set) else extra,
                                                                        sorted(missing)[:5] if missing else missing))
    if isinstance(g, dict) and g == model.table:
        if use_probes:
            got = probe()
            expp = ref_probe(model.table)
            if got != expp:
                ok = False
                k = [i for i, (x, y) in enumerate(zip(got, expp)) if x != y][0]
                if k < 3:
                    what = "attribute=True probe #%d" % k
                else:
                    k2 = k - 3
                    what = PROBES_D[k2] if k2 < len(PROBES_D) else PROBES_E[(k2 - len(PROBES_D)) // 2]
                r.violation("translation-depends-on-history", case,
                            "probe %r returns %r after this history but %r on a fresh library set to the same table" % (
                                what, got[k], expp[k]))
            loose, fresh = _enc_nonstrict(), ref_probe_nonstrict_fresh()
            if loose != fresh:
                ok = False
                k = [i for i, (x, y) in enumerate(zip(loose, fresh)) if x != y][0]
                r.violation("nonstrict-encoder-depends-on-table-or-history", case,
                            "encoder(%r, strict=False) returns %r in this state but %r on a fresh library (import-time table)" % (
                                PROBES_E[k], loose[k], fresh[k]))
    if ok:
        r.validated += 1
    return ok


def make_run(menu, use_probes, prop, check_config=True):
    def run(task):
        scope, (hists,) = task
        r = Result()
        kids = []
        for hist in hists:
            hist = tuple(hist)
            r.evaluations += 1
            r.transitions += 1
            check_state(menu, hist, r, use_probes, prop, check_config)
            fp = state_fingerprint(menu, hist)
            kids.append((hist, fp))
        r.extra["_children"] = kids
        return r
    return run


def explore(menu, submit, total, depth, nchunk=48, n_ops=None):
    """level-synchronous BFS in the master; transitions of a level are evaluated by the pool; only the first n_ops
    operations of the menu are transitions of the search (the rest are used by fixed-history scopes)"""
    n_ops = len(menu) if n_ops is None else n_ops
    seen = {}
    frontier = [()]
    # root state
    res = submit([("level-0", ([()],))])
    for _, r in res:
        for hist, fp in r.extra["_children"]:
            seen[fp] = hist
    per_level = []
    for d in range(1, depth + 1):
        trans = [h + (i,) for h in frontier for i in range(n_ops)]
        chunks = [trans[k::nchunk] for k in range(nchunk)]
        tasks = [("level-%d" % d, (c,)) for c in chunks if c]
        newf = []
        kids = []
        for _, r in submit(tasks):
            kids.extend(r.extra["_children"])
        for hist, fp in sorted(kids):           # deterministic representative per state
            if fp not in seen:
                seen[fp] = hist
                newf.append(hist)
        per_level.append({"depth": d, "transitions": len(trans), "new_states": len(newf)})
        frontier = newf
        if not frontier:
            break
    total.states = len(seen)
    for fp in seen:
        total.nontrivial.add(fp)
    total.extra["levels"] = json.dumps(per_level)
    total.samples.append({"history": [menu[i].name for i in (sorted(seen.values(), key=len)[-1])]})
    mid = sorted(seen.values())[len(seen) // 2]
    total.samples.append({"history": [menu[i].name for i in mid]})
    return seen, per_level


# ------------------------------------------------------------------ cross-process clauses (evaluated once, in the master)
_SUB = r'''
import sys, json
sys.path.insert(0, %r); sys.path.insert(0, %r)
import warnings; warnings.simplefilter("ignore")
from mc.props import hist_common as HC
HC.worker_init()
out = {"fp": HC.H.fingerprint(None)}
import selfies as sf
res = {}
for name, t in (("default", "default"), ("T1", HC.T1), ("T2", HC.T2), ("hypervalent", "hypervalent")):
    sf.set_semantic_constraints(t if isinstance(t, str) else dict(t))
    res[name] = HC.probe() + sorted(sf.get_semantic_robust_alphabet())
out["probes"] = res
print(json.dumps(out))
'''


def fresh_process(hashseed):
    env = dict(os.environ)
    env["PYTHONHASHSEED"] = str(hashseed)
    p = subprocess.run([sys.executable, "-B", "-c", _SUB % (REPO, VERIF)], capture_output=True, text=True, env=env,
                       timeout=300)
    if p.returncode != 0:
        raise RuntimeError("fresh-process probe failed: " + p.stderr[-400:])
    return json.loads(p.stdout.strip().splitlines()[-1])


def cross_process_checks(total):
    """(1) the in-place restorer reproduces the import-time state of a truly fresh interpreter;
       (2) probe results are identical across processes and hash seeds."""
    worker_init()
    import selfies as sf
    # dirty the library thoroughly, then restore
    sf.set_semantic_constraints(dict(T2))
    sf.get_semantic_robust_alphabet().add("[Foo]")
    for x in PROBES_D:
        try:
            sf.decoder(x)
        except Exception:
            pass
    H.restore()
    mine = H.fingerprint(None)
    outs = [fresh_process(s) for s in (0, 1, 2)]
    total.evaluations += len(outs)
    for k, o in enumerate(outs):
        if o["fp"] != mine:
            raise RuntimeError("HARNESS: in-place restore does not reproduce a fresh import (seed %d): %s vs %s" % (k, o["fp"], mine))
    base = outs[0]["probes"]
    for k, o in enumerate(outs[1:], 1):
        if o["probes"] != base:
            diff = [n for n in base if base[n] != o["probes"][n]]
            total.violation("results-differ-across-processes-or-hash-seeds", {"hashseeds": [0, k], "tables": diff},
                            "probe results differ between PYTHONHASHSEED=0 and %d for tables %r" % (k, diff))
    # and in-process after restore
    H.restore()
    for name, t in (("default", "default"), ("T1", T1), ("T2", T2), ("hypervalent", "hypervalent")):
        sf.set_semantic_constraints(t if isinstance(t, str) else dict(t))
        got = json.loads(json.dumps(probe() + sorted(sf.get_semantic_robust_alphabet())))   # same normal form as the sub-process output
        if got != base[name]:
            total.violation("restored-library-differs-from-fresh-process", {"table": name},
                            "probe results under %s differ between a restored library and a fresh process" % name)
    H.restore()
    total.extra["fresh_processes_compared"] = len(outs)
