"""C11 - translation is a pure function of the input and the current constraint table.   (E3)

Explicit-state BFS over histories mixing configuration calls, caller-side mutations and translation calls that fill
every cache under *other* tables, fail half-way, or hand out attribution objects that the caller then mutates.  In every
state a fixed probe set of decoder / encoder calls must return what a restored library configured to the model's
current table returns; the restorer itself is validated against fresh interpreters with three hash seeds, whose probe
results must be identical too.
"""
from mc.props import hist_common as HC
from mc.runner import Result

PROPERTY = "C11"
PRELUDE = False     # see mc/prelude.py: this check manages the library state itself
MENU = HC.CONFIG_OPS + HC.TRANSLATE_OPS
RULE = ("state = module-level state of the selfies package + caller-held objects after a history of API calls "
        "(deduplicated by structural fingerprint incl. lru_cache contents); transition = one of the %d menu operations; "
        "breadth-first to the stated depth; in every state %d decoder and %d encoder probes (strict and non-strict) are "
        "compared with a restored library set to the model's table; non-trivial = distinct states"
        % (len(MENU), len(HC.PROBES_D), len(HC.PROBES_E)))
ASSUMPTIONS = [
    "reference = the same library restored to its import-time state and configured to the table the configuration model "
    "(O4) says is current; the restorer is validated against fresh interpreters in every run",
    "equal fingerprints have equal futures (the library has no clocks, randomness, I/O or threads)",
    "hash-seed independence is checked for PYTHONHASHSEED 0, 1, 2",
]


def worker_init():
    HC.worker_init()


def plan(tier, seed):
    depth = 4 if tier == "thorough" else 3
    return {"scopes": [{"name": "level-%d" % d, "depth": d} for d in range(0, depth + 1)] + [
                {"name": "long-histories", "histories": len(_long_histories()),
                 "desc": "every prefix (length 4..64) of three cyclic sequences [set table, translate, set next table, translate, ...]"}],
            "tasks": [], "bounds": {"depth": depth, "menu": [op.name for op in MENU],
                                    "probes_decoder": HC.PROBES_D, "probes_encoder": HC.PROBES_E}, "depth": depth}


run = HC.make_run(MENU, use_probes=True, prop="C11", check_config=False)


def _long_histories():
    """the history-length dimension as a family: cycles of table switches with cache-filling translation calls in between,
    every prefix of each cycle sequence is a history (probes after every step); objects freed and re-allocated along the way
    (a table dict re-using the address of an earlier one) only occur in long histories"""
    names = [op.name for op in MENU]

    def idx(prefix):
        return [i for i, n in enumerate(names) if n.startswith(prefix)][0]
    dec = [idx("decoder('[Si][=C]"), idx("decoder('[CH1][#C]"), idx("encoder('O=S(=O)(O)O'")]
    cycles = [[idx('set({"?": 3, "C": 1, "N": 5'), idx("set(T1-with-one-value-changed)"), idx('set({"?": 0'), idx('set("default")')],
              [idx('set("default")'), idx('set("octet_rule")'), idx('set("hypervalent")')],
              [idx("set(T1-with-keys-dropped)"), idx("set(T1-as-defaultdict)"), idx("set(T2-as-OrderedDict"), idx("set(missing-?)")]]
    out = []
    for cyc in cycles:
        seq = []
        for rep in range(8):
            for k, t in enumerate(cyc):
                seq += [t, dec[(rep + k) % len(dec)]]
        for n in range(4, len(seq) + 1):
            out.append(tuple(seq[:n]))
    return out


def explore(submit, plan, total, tier, seed):
    HC.explore(MENU, submit, total, plan["depth"])
    hists = _long_histories()
    submit([("long-histories", (hists[k::32],)) for k in range(32)])


def finish(total, tier, seed):
    HC.cross_process_checks(total)


def replay(case):
    worker_init()
    names = [op.name for op in MENU]
    hist = tuple(names.index(n) for n in case["history"])
    r = Result()
    HC.check_state(MENU, hist, r, True, "C11", False)
    return [(sig, v[0]["detail"]) for sig, v in r.viol.items()]
