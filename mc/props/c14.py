"""C14 - tokenisation utilities agree with each other and with the translators.

E1 over symbol texts (including odd but bracket-free, dot-free texts) x every placement of single dots between
symbols; split_selfies / len_selfies / get_alphabet_from_selfies against an independent tokeniser; all <= 3-element
collections of the short strings; every encoder output reachable from <= 6 SMILES tokens is well formed and the
reference model fed with split_selfies' tokens equals the decoder.
"""
import itertools

from mc import enum_strings as E1
from mc.oracles import misc, deccmp
from mc.runner import Result, h64

PROPERTY = "C14"
RULE = ("every sequence of <= L symbol texts (prefix tree) x every subset of the |w|-1 gaps receiving a single dot; "
        "collections: every multiset of <= 3 strings drawn from all strings of <= 2 symbols; encoder outputs: every "
        "SMILES token string of <= 6 tokens the encoder accepts; non-trivial = distinct token lists")
ASSUMPTIONS = [
    "well-formed = bracketed symbols (no '[' ']' '.' inside), each optionally followed by one dot ('any placement of single "
    "dots'); a leading dot or doubled dots are outside the language",
    "independent tokeniser: regular expression in mc/oracles/misc.py",
]

TEXTS = ["[C]", "[=C]", "[]", "[ ]", "[nop]", "[Branch1]", "[C@@H1]", "[x y]", "[%]"]
TEXTS2 = ["[N+1]", "[\\O]", "[/C]", "[#]", "[\n]", "[é]", "[Ring1]", "[-/Ring2]", "[epsilon]"]
ALPH = {"texts": TEXTS, "texts2": TEXTS2}
SMI_TOK = ["C", "N", "O", "=", "#", "(", ")", "1", ".", "[C@H]", "[O-]", "c"]


def plan(tier, seed):
    thorough = tier == "thorough"
    L = 6 if thorough else 5
    scopes, tasks = [], []
    for an in ("texts", "texts2"):
        name = "%s/L%d" % (an, L)
        scopes.append({"name": name, "alphabet": ALPH[an], "bound_L": L, "dots": "every subset of gaps",
                       "tree_size": E1.tree_size(len(ALPH[an]), L)})
        for sh in E1.shard_prefixes(ALPH[an], L, 2):
            tasks.append((name, ("strings", an, L, sh)))
    scopes.append({"name": "collections", "desc": "get_alphabet_from_selfies on every combination (with repetition) of "
                                                  "<= 3 strings out of all dotted strings with <= 2 symbols over the first "
                                                  "alphabet, passed as list, tuple, generator, iterator, map object and dict key view"})
    for k in range(16):
        tasks.append(("collections", ("coll", k, 16)))
    Ls = 7 if thorough else 6
    scopes.append({"name": "encoder-outputs/L%d" % Ls, "alphabet": SMI_TOK, "bound_L": Ls,
                   "desc": "every SMILES token string; accepted ones: output well formed, tokens == split_selfies, "
                           "model(split_selfies tokens) == decoder"})
    for sh in E1.shard_prefixes(SMI_TOK, Ls, 2):
        tasks.append(("encoder-outputs/L%d" % Ls, ("enc", Ls, sh)))
    from mc.props import c01
    fam_names = ("nested-budgets", "branch-budget", "fragments", "rings-reaching-back-over-dot")
    for fi, (fname, table, members) in enumerate(c01.families(tier)):
        if fname in fam_names and table == "default":
            name = "decoder-tokens/" + fname
            scopes.append({"name": name, "members": len(members),
                           "desc": "hand-shaped strings the encoder never writes: the reference model fed with split_selfies' "
                                   "tokens must equal the decoder (the decoder consumes exactly these tokens, also across nested "
                                   "branch budgets)"})
            for k in range(0, len(members), 100):
                tasks.append((name, ("fam", fi, k, k + 100, tier)))
    return {"scopes": scopes, "tasks": tasks, "bounds": {"L": L, "L_smiles_tokens": Ls}}


_SF = None


def worker_init():
    global _SF
    import selfies
    _SF = selfies
    _SF.set_semantic_constraints("default")


def dotted(w):
    """every placement of single dots *after* symbols: between two symbols and after the last one
    (a leading dot does not follow a symbol and is outside the language)"""
    n = len(w)
    if n == 0:
        yield ""
        return
    for mask in range(1 << n):
        parts = []
        for i in range(n):
            parts.append(w[i])
            if mask >> i & 1:
                parts.append(".")
        yield "".join(parts)


def check_string(s, r):
    r.evaluations += 1
    r.transitions += 1
    exp = misc.tokenize(s)
    case = {"kind": "string", "selfies": s}
    try:
        got = list(_SF.split_selfies(s))
    except Exception as e:
        r.violation("split:raises", case, "split_selfies(%r) raised %r" % (s, e))
        return
    ok = True
    if got != exp:
        ok = False
        r.violation("split:tokens", case, "split_selfies(%r)=%r expected %r" % (s, got, exp))
    if "".join(got) != s:
        ok = False
        r.violation("split:join", case, "tokens of %r join to %r" % (s, "".join(got)))
    n = _SF.len_selfies(s)
    if n != len(exp):
        ok = False
        r.violation("len", case, "len_selfies(%r)=%r, %d items" % (s, n, len(exp)))
    a = _SF.get_alphabet_from_selfies([s])
    if a != set(exp) - {"."} or not isinstance(a, set):
        ok = False
        r.violation("alphabet:single", case, "get_alphabet_from_selfies([%r])=%r" % (s, a))
    if ok:
        r.validated += 1
        r.nontrivial.add(h64(tuple(exp)))


def run(task):
    scope, arg = task
    r = Result()
    if arg[0] == "strings":
        _, an, L, sh = arg
        s = None
        for w in E1.nodes(ALPH[an], L, sh):
            r.states += 1
            for s in dotted(w):
                check_string(s, r)
        if s is not None:
            r.sample({"scope": scope, "selfies": s, "tokens": misc.tokenize(s)}, 1)
    elif arg[0] == "coll":
        _, k, nsh = arg
        base = []
        for l in range(0, 3):
            for w in itertools.product(TEXTS, repeat=l):
                base.extend(dotted(w))
        toks = [set(misc.tokenize(s)) - {"."} for s in base]
        idx = range(len(base))
        cnt = 0
        for n in (0, 1, 2, 3):
            for comb in itertools.combinations_with_replacement(idx, n):
                cnt += 1
                if cnt % nsh != k:
                    continue
                r.evaluations += 1
                r.states += 1
                r.transitions += 1
                exp = set().union(*[toks[i] for i in comb]) if comb else set()
                strs = [base[i] for i in comb]
                form = cnt // nsh % 6       # every documented "Iterable[str]" shape in rotation
                arg_ = (strs, tuple(strs), (x for x in strs), iter(strs), map(str, strs), dict.fromkeys(strs).keys())[form]
                try:
                    got = _SF.get_alphabet_from_selfies(arg_)
                except Exception as e:
                    got = repr(e)
                if got != exp:
                    r.violation("alphabet:collection", {"kind": "coll", "strings": strs},
                                "get_alphabet_from_selfies(%r)=%r expected %r" % (strs, got, exp))
                else:
                    r.validated += 1
                    r.nontrivial.add(h64(tuple(sorted(exp))))
        r.sample({"scope": scope, "strings": [base[5], base[-1]]}, 1)
    elif arg[0] == "fam":
        from mc.props import c01
        _, fi, lo, hi, tier = arg
        fname, _t, members = c01.families(tier)[fi]
        _SF.set_semantic_constraints("".join(list("default")))
        table = _SF.get_semantic_constraints()
        for label, x in members[lo:hi]:
            if not misc.is_wellformed_single_dots(x) or x.endswith(".") or x.startswith("."):
                continue        # outside C14's language (single dots between symbols)
            r.states += 1
            r.evaluations += 1
            r.transitions += 1
            case = {"kind": "string", "selfies": x}
            toks = list(_SF.split_selfies(x))
            if toks != misc.tokenize(x) or _SF.len_selfies(x) != len(toks):
                r.violation("split:tokens", case, "tokens of %r" % (x[:200],))
                continue
            verdict, got = deccmp.compare(_SF, x, toks, table)
            if verdict is not None:
                r.violation("decoder-consumes-other-tokens:" + verdict[0], {"kind": "dec", "selfies": x}, verdict[1])
                continue
            r.validated += 1
            r.nontrivial.add(h64(x))
        r.sample({"scope": scope, "selfies": members[lo][1][:120]}, 1)
    else:
        _, L, sh = arg
        table = _SF.get_semantic_constraints()
        last = None
        for w in E1.nodes(SMI_TOK, L, sh):
            smi = "".join(w)
            r.states += 1
            try:
                x = _SF.encoder(smi)
            except Exception:
                continue
            r.evaluations += 1
            r.transitions += 1
            case = {"kind": "enc", "smiles": smi}
            if not misc.is_wellformed_single_dots(x) or x.endswith(".") or x.startswith("."):
                r.violation("encoder-output-not-wellformed", case, "encoder(%r)=%r" % (smi, x))
                continue
            toks = list(_SF.split_selfies(x))
            if toks != misc.tokenize(x) or _SF.len_selfies(x) != len(toks):
                r.violation("encoder-output-tokenisation", case, "encoder(%r)=%r tokens %r" % (smi, x, toks))
                continue
            verdict, got = deccmp.compare(_SF, x, toks, table)
            if verdict is not None:
                r.violation("decoder-consumes-other-tokens:" + verdict[0], case, verdict[1])
                continue
            r.validated += 1
            r.nontrivial.add(h64(x))
            last = (smi, x)
        if last:
            r.sample({"scope": scope, "smiles": last[0], "encoder": last[1]}, 1)
    return r


def replay(case):
    worker_init()
    r = Result()
    if case["kind"] == "string":
        check_string(case["selfies"], r)
    elif case["kind"] == "coll":
        exp = set()
        for s in case["strings"]:
            exp |= set(misc.tokenize(s)) - {"."}
        got = _SF.get_alphabet_from_selfies(case["strings"])
        if got != exp:
            r.violation("alphabet:collection", case, "%r vs %r" % (got, exp))
    elif case["kind"] == "dec":
        x = case["selfies"]
        verdict, got = deccmp.compare(_SF, x, list(_SF.split_selfies(x)), _SF.get_semantic_constraints())
        if verdict is not None:
            r.violation("decoder-consumes-other-tokens:" + verdict[0], case, verdict[1])
    else:
        x = _SF.encoder(case["smiles"])
        toks = list(_SF.split_selfies(x))
        if toks != misc.tokenize(x) or not misc.is_wellformed_single_dots(x):
            r.violation("encoder-output-tokenisation", case, x)
        verdict, _ = deccmp.compare(_SF, x, toks, _SF.get_semantic_constraints())
        if verdict:
            r.violation(verdict[0], case, verdict[1])
    return [(sig, v[0]["detail"]) for sig, v in r.viol.items()]
