"""C10 - encoder output is always decodable, standardised and stable under re-encoding.

E2 written forms (topology / bond / atom palettes, trailing branches, ring digits written after branches), the complete
atom-spelling grid (isotope x element x chirality x H x charge spellings) in small contexts, ring spans and branch
lengths needing 1, 2 and 3 index symbols.  For every input the encoder accepts with strict=True under table K:
  (a) the output is a well-formed SELFIES string, (b) decoder(output) under K does not raise,
  (c) equivalent atom spellings give the same symbol, (d) encoder(decoder(output)) == output.
"""
import itertools

from mc import enum_smiles as E2
from mc import enum_strings as E1
from mc.oracles import misc
from mc.runner import Result, h64

PROPERTY = "C10"
RULE = ("state = written SMILES form; every form of the stated scopes is encoded (strict=True) under the table; "
        "accepted ones are decoded and re-encoded; non-trivial = distinct SELFIES strings of accepted inputs")
ASSUMPTIONS = [
    "well-formedness judged by the independent tokeniser (bracketed symbols separated by single dots)",
    "equivalence classes of atom spellings are computed from the spelling's meaning (isotope, element, chirality, "
    "H count with H = H1 and no H = H0 inside brackets, charge with + = +1, ++ = +2, +0 = none)",
    "ring spans / branch lengths are kept <= 4096 (Q <= 16^3 - 1), the documented three-index-symbol limit",
]

RELAXED = {"?": 12}
RINGSYM = [("", ""), ("/", ""), ("\\", ""), ("", "/"), ("", "\\"), ("/", "/"), ("\\", "\\"), ("/", "\\"), ("\\", "/"), ("=", ""),
           ("", "="), ("=", "="), ("#", ""), ("#", "#"), ("-", ""), ("", "-"), ("-", "-")]
TIGHT = {"C": 4, "N": 2, "Fe": 1, "H": 1, "Cl": 0, "?": 3}
ISO = ["", "0", "13", "235", "\u0661\u0663"]          # the last: Arabic-Indic digits 13 (the readers use \\d)
ELEM = ["C", "N", "Fe", "H", "Cl", "B", "O", "S", "P", "F", "Br", "I"]
CHIR = ["", "@", "@@"]
HS = ["", "H", "H0", "H1", "H4", "H5", "H9", "H\u0664"]
CHG = ["", "+", "++", "+2", "+10", "-", "---", "-3", "+0", "-20", "+\u0662", "-\u0663"]
ATOM_PAL = ["C", "N", "O", "F", "[CH3]", "[O-]", "[N+]", "[Fe+2]", "[13CH4]"]


def spelling_meaning(iso, el, chir, h, chg):
    hn = 0 if h == "" else (1 if h == "H" else int(h[1:]))
    if chg == "":
        c = 0
    elif chg[-1].isdigit():
        c = int(chg[1:]) * (1 if chg[0] == "+" else -1)
    else:
        c = len(chg) * (1 if chg[0] == "+" else -1)
    return (None if iso == "" else int(iso), el, chir, hn, c)


def plan(tier, seed):
    thorough = tier == "thorough"
    scopes, tasks = [], []
    nt, rt = (8, 3) if thorough else (7, 2)
    scopes.append({"name": "topology", "n_max": nt, "r_max": rt, "digit_orders": "all",
                   "label_schemes": ["fresh", "two", "reuse"], "tables": ["default (degree<=4)", RELAXED]})
    for n in range(1, nt + 1):
        for pi, _ in enumerate(E2.parent_vectors(n)):
            tasks.append(("topology", ("topo", n, pi, rt)))
    nl = 7 if thorough else 6
    scopes.append({"name": "lenient-spellings", "n_max": nl, "r_max": 2,
                   "desc": "ring digits written after the k-th branch of an atom (every atom with digits and branches, "
                           "every k) and trailing parenthesised branches (every subset of branching atoms)",
                   "table": RELAXED})
    for n in range(3, nl + 1):
        for pi, _ in enumerate(E2.parent_vectors(n)):
            tasks.append(("lenient-spellings", ("lenient", n, pi)))
    nb = 4 if thorough else 3
    scopes.append({"name": "bonds+atoms", "n_max": nb, "r_max": 1, "edge_symbols": ["", "=", "#", "/", "\\"],
                   "atom_palette": ATOM_PAL, "table": "default and relaxed"})
    for n in range(1, nb + 1):
        for pi, _ in enumerate(E2.parent_vectors(n)):
            for first in range(len(ATOM_PAL)):
                tasks.append(("bonds+atoms", ("ba", n, pi, first)))
    nr = 5 if thorough else 4
    scopes.append({"name": "ring-bond-symbols", "n_max": nr, "ring_symbols(open,close)": RINGSYM, "edge_symbols": ["", "=", "/", "\\"],
                   "desc": "one ring bond carrying every combination of bond / stereo symbols on its two digits", "table": RELAXED})
    for n in range(3, nr + 1):
        for pi, _ in enumerate(E2.parent_vectors(n)):
            tasks.append(("ring-bond-symbols", ("ringsym", n, pi)))
    n2 = 6 if thorough else 5
    scopes.append({"name": "two-ring-bonds-with-orders", "n_max": n2, "ring_orders": ["", "=", "#"], "digit_orders": "all",
                   "desc": "two ring bonds, each single / double / triple (symbol on the opening digit), every order of the digits at "
                           "an atom: the decoder must write ring bonds back in the order the encoder reads them", "table": RELAXED})
    for n in range(3, n2 + 1):
        for pi, _ in enumerate(E2.parent_vectors(n)):
            tasks.append(("two-ring-bonds-with-orders", ("tworings", n, pi)))
    RAW = ["C", "O", "=", "(", ")", "1", "2", "/"]
    Lr = 8 if thorough else 7
    scopes.append({"name": "raw-token-strings", "alphabet": RAW, "bound_L": Lr, "tree_size": E1.tree_size(len(RAW), Lr),
                   "desc": "every concatenation of raw SMILES tokens (most are not SMILES at all): whatever the encoder accepts - valid "
                           "or not - must give a decodable SELFIES string that is stable under re-encoding", "table": RELAXED})
    for sh in E1.shard_prefixes(RAW, Lr, 2):
        tasks.append(("raw-token-strings", ("raw", Lr, sh)))
    from mc.props import c06
    scopes.append({"name": "aromatic-under-tight-tables", "skeletons": c06.AROM, "substituents": ["", "C", "F", "=O", "O"],
                   "tables": list(c06.ARO_TABLES),
                   "desc": "aromatic forms at and above the capacities of the table in force: whatever strict=True accepts after "
                           "kekulization must decode under that table and re-encode to itself"})
    for k in range(len(c06.AROM)):
        tasks.append(("aromatic-under-tight-tables", ("arom", k)))
    scopes.append({"name": "atom-grid", "isotopes": ISO, "elements": ELEM, "chirality": CHIR, "H": HS, "charges": CHG,
                   "contexts": ["X", "CX", "X=C", "C(X)C", "C1XC1", "CC.X", "X.X"],
                   "tables": [RELAXED, "default", "octet_rule", TIGHT]})
    for i in range(len(ISO)):
        for e in range(len(ELEM)):
            tasks.append(("atom-grid", ("grid", i, e)))
    els = sorted(misc.ELEMENTS)
    scopes.append({"name": "every-element", "elements": len(els), "isotopes": ["", "13"], "chirality": CHIR,
                   "H": ["", "H1", "H2"], "charges": ["", "+", "-", "+2"], "atom_class": ["", ":1", ":12"],
                   "contexts": ["X", "CX", "C1XC1", "C(X)(F)Cl", "X=C"],
                   "desc": "the symbol grammar of encoder and decoder are separate hand-written patterns: every element "
                           "of the periodic table in every bracket form", "table": RELAXED})
    for k in range(0, len(els), 8):
        tasks.append(("every-element", ("elements", els[k:k + 8])))
    digs = (1, 10, 100, 1000, 4299, 4300, 4301, 5000)
    scopes.append({"name": "long-digit-runs", "digits": list(digs), "fields": ["isotope", "charge", "H count", "isotope of an aromatic atom"],
                   "desc": "numeric fields of any length: whatever the encoder accepts the decoder must take back", "table": RELAXED})
    tasks.append(("long-digit-runs", ("digits", digs)))
    spans = list(range(1, 301)) + list(range(4088, 4097)) if not thorough else list(range(1, 4097, 1))
    scopes.append({"name": "index-spans", "n": "1..300 and 4088..4096" if not thorough else "1..4096",
                   "desc": "ring of span n, branch of length n, both nested", "table": "default"})
    for k in range(0, len(spans), 16):
        tasks.append(("index-spans", ("spans", spans[k:k + 16])))
    return {"scopes": scopes, "tasks": tasks, "bounds": {"topology": [nt, rt], "lenient_n": nl, "ba_n": nb},
            "weight": lambda t: (t[1][1][-1] if t[1][0] == "spans" else (t[1][1] if t[1][0] not in ("grid", "elements", "digits", "arom", "raw") else 5))}


_SF = None
_CUR = [None]


def worker_init():
    global _SF
    import selfies
    _SF = selfies


def use(table):
    key = repr(table)
    if _CUR[0] != key:
        _SF.set_semantic_constraints(table if isinstance(table, str) else dict(table))
        _CUR[0] = key


def check(smi, table, r):
    """returns the SELFIES string when accepted, else None"""
    use(table)
    r.evaluations += 1
    r.transitions += 1
    try:
        x = _SF.encoder(smi, strict=True)
    except _SF.EncoderError:
        r.cov["encoder rejects (outside C10's domain)"] += 1
        return None
    except Exception as e:
        r.cov["encoder escapes with %s (C09's business)" % type(e).__name__] += 1
        return None
    case = {"smiles": smi if len(smi) < 300 else None, "table": table, "smiles_len": len(smi)}
    if len(smi) >= 300:
        case["regen"] = smi[:12]
    if not isinstance(x, str) or not misc.is_wellformed_single_dots(x) or x.endswith("."):
        r.violation("output-not-wellformed", case, "encoder(%r) = %r" % (smi[:100], x if isinstance(x, str) else type(x)))
        return None
    try:
        y = _SF.decoder(x)
    except _SF.DecoderError as e:
        bad = str(e).split("'")[1] if "'" in str(e) else "?"
        r.violation("output-not-decodable", case, "encoder(%r) = %r; decoder rejects symbol %r" % (smi[:100], x[:200], bad))
        return None
    except Exception as e:
        r.violation("decoder-escapes:" + type(e).__name__, case, "decoder(%r)" % (x[:200],))
        return None
    try:
        x2 = _SF.encoder(y, strict=True)
    except Exception as e:
        r.violation("re-encode-raises:" + type(e).__name__, case, "%r -> %r -> %r: %s" % (smi[:100], x[:200], y[:200], str(e).strip()[:100]))
        return None
    if x2 != x:
        # name the instability by its cause so that distinct causes get distinct signatures
        sig = "unstable-re-encoding"
        r.violation(sig, case, "%r -> %r -> %r -> %r" % (smi[:100], x[:200], y[:200], x2[:200]))
        return x
    r.validated += 1
    r.nontrivial.add(h64(x))
    return x


def run(task):
    scope, arg = task
    r = Result()
    kind = arg[0]
    last = None
    if kind == "topo":
        _, n, pi, rmax = arg
        par = list(E2.parent_vectors(n))[pi]
        at, bt = ["C"] * n, [""] * n
        for rings in E2.ring_sets(n, par, rmax):
            deg = E2.degrees(n, par, rings)
            r.states += 1
            for dp in E2.digit_orders(rings):
                for sc in ("fresh", "two", "reuse"):
                    if (sc == "reuse" and dp is not None) or (not rings and sc != "fresh"):
                        continue
                    smi = E2.write(n, par, rings, at, bt, scheme=sc, digit_perm=dp)
                    x = check(smi, RELAXED, r)
                    if max(deg) <= 4:
                        check(smi, "default", r)
                    last = (smi, x)
    elif kind == "lenient":
        _, n, pi = arg
        par = list(E2.parent_vectors(n))[pi]
        at, bt = ["C"] * n, [""] * n
        for rings in E2.ring_sets(n, par, 2):
            r.states += 1
            for ds, pl in E2.lenient_variants(n, par, rings):
                smi = E2.write(n, par, rings, at, bt, digit_slot=ds, paren_last=pl)
                last = (smi, check(smi, RELAXED, r))
    elif kind == "ringsym":
        _, n, pi = arg
        par = list(E2.parent_vectors(n))[pi]
        at = ["C"] * n
        for rings in E2.ring_sets(n, par, 1, 1):
            r.states += 1
            for rs in RINGSYM:
                for bts in itertools.product(["", "=", "/", "\\"], repeat=n - 1):
                    smi = E2.write(n, par, rings, at, [""] + list(bts), ring_tok={rings[0]: rs})
                    last = (smi, check(smi, RELAXED, r))
    elif kind == "raw":
        RAW = ["C", "O", "=", "(", ")", "1", "2", "/"]
        for w in E1.nodes(RAW, arg[1], arg[2]):
            if not w:
                continue
            smi = "".join(w)
            r.states += 1
            last = (smi, check(smi, RELAXED, r))
    elif kind == "arom":
        from mc.props import c06
        for smi in sorted(c06.aromatic_variants(c06.AROM[arg[1]])):
            r.states += 1
            for tn, t in c06.ARO_TABLES.items():
                last = (smi, check(smi, t, r))
    elif kind == "tworings":
        _, n, pi = arg
        par = list(E2.parent_vectors(n))[pi]
        at, bt = ["C"] * n, [""] * n
        for rings in E2.ring_sets(n, par, 2, 2):
            r.states += 1
            for dp in E2.digit_orders(rings):
                for o1, o2 in itertools.product(["", "=", "#"], repeat=2):
                    if o1 == o2 == "":
                        continue
                    for sc in ("fresh", "two"):        # one-digit and %nn labels
                        smi = E2.write(n, par, rings, at, bt, ring_tok={rings[0]: (o1, ""), rings[1]: (o2, "")}, digit_perm=dp, scheme=sc)
                        last = (smi, check(smi, RELAXED, r))
        if pi == 0:
            # the writer numbers ring bonds 1, 2, 3, ...: a multiple ring bond behind k earlier rings gets a one- or two-digit label
            for k in range(0, 13):
                for o in ("=", "#", "/"):
                    for tail in ("C%s1CCCCC%s1" % (o, o), "C%s1CCCCC1" % o, "C1CCCCC%s1" % o):
                        smi = "C1CC1." * k + tail
                        last = (smi, check(smi, RELAXED, r))
                        smi = "C1CC1" * k + tail
                        last = (smi, check(smi, RELAXED, r))
    elif kind == "ba":
        _, n, pi, first = arg
        par = list(E2.parent_vectors(n))[pi]
        for rings in E2.ring_sets(n, par, 1):
            r.states += 1
            for rest in itertools.product(ATOM_PAL[:5], repeat=n - 1):
                at = [ATOM_PAL[first]] + list(rest)
                for bts in itertools.product(["", "=", "#", "/", "\\"], repeat=n - 1):
                    bt = [""] + list(bts)
                    smi = E2.write(n, par, rings, at, bt)
                    x = check(smi, "default", r)
                    if x is None:
                        x = check(smi, RELAXED, r)
                    last = (smi, x)
    elif kind == "grid":
        _, ii, ei = arg
        iso, el = ISO[ii], ELEM[ei]
        classes = {}
        for chir, h, chg in itertools.product(CHIR, HS, CHG):
            sp = "[%s%s%s%s%s]" % (iso, el, chir, h, chg)
            r.states += 1
            for ctx in ("%s", "C%s", "%s=C", "C(%s)C", "C1%sC1", "CC.%s", "%s.%s"):
                smi = ctx % ((sp,) * ctx.count("%s"))
                # history first: the decoder meets this spelling's symbol for the first time under the *tight* table
                # (where it may be rejected), and only then the round trip under the relaxed table is checked
                use(TIGHT)
                try:
                    _SF.decoder(_SF.encoder(smi, strict=False))
                except Exception:
                    pass
                x = check(smi, RELAXED, r)
                if x is not None and ctx == "C%s":
                    sym = misc.tokenize(x)[1]
                    classes.setdefault(spelling_meaning(iso, el, chir, h, chg), {})[sp] = sym
                # the same spellings under tight tables: lone or bonded atoms whose explicit H alone reach the capacity
                for tight in ("default", "octet_rule", TIGHT):
                    check(smi, tight, r)
                    if x is not None:
                        # history: the string accepted under the relaxed table is also handed to the decoder under the
                        # tighter table (it may legitimately be rejected there); what matters is that this leaves no
                        # trace for the round trips that follow under other tables
                        try:
                            _SF.decoder(x)
                        except Exception:
                            pass
                last = (smi, x)
        for mean, d in classes.items():
            r.evaluations += 1
            if len(set(d.values())) > 1:
                r.violation("equivalent-spellings-differ", {"spellings": d, "table": RELAXED},
                            "spellings of the same atom %r map to different symbols: %r" % (mean, d))
            else:
                r.validated += 1
    elif kind == "digits":
        for n in arg[1]:
            for t in ("[%sC]", "C[C+%s]", "[O-%s]C", "[CH%s]", "c1cc[%sc]cc1", "C[%sC@@H](F)Cl", "[%sC].[C]"):
                for d in ("1", "9", "0", "\u0661"):
                    r.states += 1
                    smi = t % (d * n)
                    x = check(smi, RELAXED, r)
                    last = (smi[:30], x[:30] if x else x)
    elif kind == "elements":
        for el in arg[1]:
            for iso, chir, h, chg in itertools.product(["", "13"], CHIR, ["", "H1", "H2"], ["", "+", "-", "+2"]):
                syms = set()
                for cls in ("", ":1", ":12"):        # the atom class (":n") is read and dropped: same symbol with and without it
                    sp = "[%s%s%s%s%s%s]" % (iso, el, chir, h, chg, cls)
                    r.states += 1
                    for ctx in ("%s", "C%s", "C1%sC1", "C(%s)(F)Cl", "%s=C"):
                        smi = ctx % sp
                        x = check(smi, RELAXED, r)
                        last = (smi, x)
                        if ctx == "C%s" and x is not None:
                            syms.add(misc.tokenize(x)[1])
                r.evaluations += 1
                if len(syms) > 1:
                    r.violation("equivalent-spellings-differ", {"spellings": {"[%s%s%s%s%s%s]" % (iso, el, chir, h, chg, c): None for c in ("", ":1", ":12")},
                                                                "table": RELAXED},
                                "the atom class changes the symbol: %r" % sorted(syms))
                else:
                    r.validated += 1
    else:
        _, ns = arg
        for n in ns:
            r.states += 1
            forms = ["C(" + "C" * n + ")C", "C(" + "C" * n + ")(N)O"]
            if n + 6 <= 4096:     # outer branch length counted in SELFIES symbols
                forms.append("C(C(" + "C" * n + ")N)O")
            if n >= 2:
                forms += ["C1" + "C" * n + "1", "N1" + "C" * (n - 1) + "(C1)C", "C1" + "C" * n + "1" + "C2CC2"]
            for smi in forms:
                last = (smi[:40], check(smi, "default", r))
                if last[1]:
                    last = (last[0], last[1][:80])
    if last:
        r.sample({"scope": scope, "smiles": last[0], "encoder": last[1]}, 1)
    return r


def replay(case):
    worker_init()
    r = Result()
    if case.get("smiles"):
        check(case["smiles"], case["table"], r)
    elif case.get("spellings"):
        use(case["table"])
        syms = {sp: misc.tokenize(_SF.encoder("C" + sp))[1] for sp in case["spellings"]}
        if len(set(syms.values())) > 1:
            r.violation("equivalent-spellings-differ", case, repr(syms))
    else:
        return [("needs-regeneration", "long input not stored; re-run ./check C10 --scope index-spans")]
    return [(sig, v[0]["detail"]) for sig, v in r.viol.items()]
