"""C01 - every SELFIES string decodes to a syntactically valid, valence-valid SMILES.

E1 over valence-stressing alphabets x tables, the full robust alphabet of the default table (with RDKit
sanitisation, the "independent cheminformatics sanitizer" the property names), and complete parametric families
for the dimensions bounded strings cannot reach (ring count, rings open at once, nesting depth, fragments).
Oracle: O1 re-reads every output (syntax, ring labels, self/duplicate bonds) and an independent per-atom
bond-order sum + explicit H is compared with the capacity looked up in get_semantic_constraints().
"""
import functools
import itertools
import re

from mc import enum_strings as E1
from mc import tables
from mc.oracles import misc, smiread
from mc.runner import Result, h64

PROPERTY = "C01"
RULE = ("every token string of length <= L over each alphabet under each table, plus every member of each "
        "parametric family (all n in the stated range); each decoder output is re-read by the independent reader; "
        "non-trivial = distinct non-empty output SMILES")
ASSUMPTIONS = [
    "independent reader mc/oracles/smiread.py decides syntactic validity (OpenSMILES grammar, labels 0-9, %10-%99)",
    "capacity of an atom = table[E], table[E+n], table[E-n] or table['?'] from get_semantic_constraints(), minus nothing: "
    "explicit H are added to the bond-order sum",
    "RDKit MolFromSmiles(sanitize=True) is the independent sanitizer, consulted only under the default table on "
    "strings over get_semantic_robust_alphabet()",
]

A_VAL = ["[C]", "[=C]", "[#C]", "[N]", "[#N]", "[O]", "[=O]", "[F]", "[S]", "[=S]", "[#S]", "[B]", "[Branch1]",
         "[=Branch1]", "[#Branch1]", "[Ring1]", "[=Ring1]", "[#Ring1]", "[Ring2]", "."]
A_CHG = ["[C+1]", "[=C-1]", "[N+1]", "[=N+1]", "[#N-1]", "[O+1]", "[=O-1]", "[CH2]", "[=CH1]", "[NH1]", "[Fe]",
         "[=Fe+2]", "[#Xe]", "[H]", "[#N+10]", "[=O-20]", "[SiH3]", "[=SeH1]", "[Branch1]", "[#Branch1]", "[Ring1]", "[#Ring1]", "[\\/Ring1]", "."]
A_CONT = ["[C]", "[N]", "[Branch1]", "[Ring1]", "[=Ring1]", "[#Ring1]"]     # rings competing for valences from both directions
# deeper ring contention: the shortest strings in which a ring landing on an existing bond, or a second ring on the same pair,
# changes what a later ring at that atom may still take have 10-11 symbols; only strings starting with the atom are enumerated
A_RC1 = ["[C]", "[Branch1]", "[Ring1]", "[Ring2]"]
A_RC3 = ["[C]", "[Branch1]", "[Ring1]", "[=Ring1]"]
ATOM_FIRST = ("rc1", "rc3")
ALPHABETS = {"val": A_VAL, "chg": A_CHG, "contention": A_CONT, "rc1": A_RC1, "rc3": A_RC3}

HUGE = {"?": 1000}


@functools.lru_cache(maxsize=None)
def families(tier):
    """(family name, table name or dict, list of (label, string))"""
    thorough = tier == "thorough"
    R = 130
    fams = []
    # (1) r consecutive three-membered rings, never more than one open
    fams.append(("rings-consecutive", "default",
                 [("r=%d" % r, "[C][C][C][Ring1][Ring1]" * r) for r in range(1, R + 1)]))
    # (2) r rings all closed at the last atom of a chain (all open at once); needs a large capacity
    lad = []
    for r in range(1, R + 1):
        n = r + 3
        s = "[C]" * n
        for k in range(r):
            q = k + 1                       # targets m-2, m-3, ...
            d = misc.index_symbols(q)
            s += "[Ring%d]" % len(d) + "".join(d)
        lad.append(("r=%d" % r, s))
    fams.append(("rings-fan-open-at-once", HUGE, lad))
    # (3) concentric rings: atom j (second half) closes to atom N-1-j; all open in the middle, default table
    conc = []
    for r in range(1, R + 1):
        half = r + 1
        s = "[C]" * half + "[C]"
        for k in range(r):
            # current atom index m = half + 1 + k ... closes to half - 1 - k  => distance 2k+2 => Q = 2k+1
            d = misc.index_symbols(2 * k + 2)
            s += "[C]" + "[Ring%d]" % len(d) + "".join(d)
        conc.append(("r=%d" % r, s))
    fams.append(("rings-concentric-open-at-once", "default", conc))
    # (4) k ring symbols on the same pair (existing chain bond / existing ring bond), all orders
    same = []
    for k in range(1, 7):
        for sym in ("[Ring1]", "[=Ring1]", "[#Ring1]"):
            same.append(("k=%d %s chain-bond" % (k, sym), "[C][C]" + (sym + "[C]") * k))
            same.append(("k=%d %s ring-bond" % (k, sym), "[C][C][C]" + (sym + "[Ring1]") * k))
            same.append(("k=%d %s S" % (k, sym), "[S][S][S]" + (sym + "[Ring1]") * k + "[=O][=O]"))
    fams.append(("rings-same-pair", "default", same))
    fams.append(("rings-same-pair", "hypervalent", same))
    fams.append(("rings-same-pair", HUGE, same))
    # (5) nesting depth
    nest = []
    for d in range(1, 61):
        nest.append(("d=%d Branch2" % d, "[C][Branch2][P][P]" * d + "[C][=O]" + "[F]" * d))
        nest.append(("d=%d #Branch3" % d, "[S][#Branch3][P][P][P]" * d + "[=O]" * d))
    # beyond the interpreter's recursion limit (the decoder must not depend on it)
    for d in (100, 500, 900, 990, 1000, 1010, 1100, 1500, 3000):
        nest.append(("d=%d Branch3" % d, "[C][Branch3][P][P][P]" * d + "[C][=O]"))
    fams.append(("nesting-depth", "default", nest))
    fams.append(("nesting-depth", HUGE, nest))
    # (6) fragments
    frag = []
    for f in range(1, 51):
        frag.append(("f=%d" % f, ".".join(["[C][=O]"] * f)))
        frag.append(("f=%d rings-across" % f, ".".join(["[C][C][Ring1][Ring2]"] * f)))
        frag.append(("f=%d empty" % f, "." * f + "[N]" + "." * f + "[C][Ring1][C]" + "." * f))
    fams.append(("fragments", "default", frag))
    # (6b) a ring in a later, *shorter* fragment reaching back over the dot into an earlier one (global atom numbering),
    # also onto atoms that already carry ring bonds, chiral targets, two rings to the same earlier atom
    back = []
    for a in range(1, 7):
        for b in range(1, 4):
            for q in range(0, 9):
                d = misc.INDEX[q]
                back.append(("a=%d b=%d Q=%d" % (a, b, q), "[C]" * a + "." + "[N]" * b + "[Ring1]" + d))
                back.append(("a=%d b=%d Q=%d ring-in-first" % (a, b, q),
                             "[C@]" + "[C]" * a + "[Ring1][Ring1]" + "." + "[O]" * b + "[=Ring1]" + d + "[Ring1]" + d))
    fams.append(("rings-reaching-back-over-dot", "default", back))
    # (7) branch budgets around 16 and 256 with rings inside the window and straddling it
    bud = []
    for q in (14, 15, 16, 17, 254, 255, 256, 257):
        d = misc.index_symbols(q)
        for extra in (-1, 0, 1, 2):
            body = "[C]" * max(0, q + 1 + extra - 3) + "[C][Ring1][Ring1]"
            bud.append(("Q=%d extra=%d" % (q, extra), "[C][Branch%d]" % len(d) + "".join(d) + body + "[O][=C][Ring1][Ring2]"))
    fams.append(("branch-budget", "default", bud))
    # (7b) nested branch budgets: an outer branch of every budget around an inner branch whose *last* symbol is a ring or branch
    # symbol (its index symbols then lie beyond the inner branch's end, inside or beyond the outer one), filler and a tail
    nb = []
    heads = ["[C][C][C][C]", "[S]"]
    lasts = [("[Ring1]", 1), ("[=Ring1]", 1), ("[Ring2]", 2), ("[Branch1]", 1), ("[=Branch2]", 2), ("[Ring3]", 3)]
    for head in heads:
        for inner_body in ("", "[C]", "[C][=C]"):
            n_in = inner_body.count("[") + 1                     # inner budget ends exactly on the ring / branch symbol
            for last, L in lasts:
                for digs in itertools.product(["[C]", "[Ring1]", "[Branch1]"], repeat=L):
                    core = "[N]" + "[Branch1]" + misc.index_symbols(n_in - 1)[0] + inner_body + last + "".join(digs)
                    rest = "[O][F][P][=O]"
                    total = core.count("[") + 4
                    for q_out in range(max(0, core.count("[") - L - 2), total + 1):
                        if q_out > 15:
                            continue
                        st = head + "[Branch1]" + misc.index_symbols(q_out)[0] + core + rest + "[Cl][Br]"
                        nb.append(("%s inner=%r last=%s%s outerQ=%d" % (head, inner_body, last, "".join(digs), q_out), st))
    fams.append(("nested-budgets", "default", nb))
    fams.append(("nested-budgets", "hypervalent", nb[::3]))
    # (8) long chains / many symbols
    longs = [("n=%d" % n, "[C][=C]" * n) for n in ((50, 200, 1000) if not thorough else (50, 200, 1000, 4000))]
    fams.append(("long", "default", longs))
    return fams


def plan(tier, seed):
    thorough = tier == "thorough"
    grid = []
    if thorough:
        grid += [("val", "default", 6)] + [("val", t, 5) for t in tables.ALL if t != "default"]
        grid += [("chg", t, 5) for t in ("default", "hypervalent", "mix")] + [("chg", t, 4) for t in ("zero", "big", "octet_rule")]
        grid += [("contention", "default", 9), ("contention", "octet_rule", 8), ("rc1", "default", 12), ("rc3", "default", 12)]
    else:
        grid += [("val", "default", 5)] + [("val", t, 4) for t in tables.ALL if t != "default"]
        grid += [("chg", "default", 4), ("chg", "mix", 4), ("chg", "hypervalent", 4), ("contention", "default", 8)]
        grid += [("rc1", "default", 11), ("rc3", "default", 10)]
    extras = [("chg", "big", 4), ("chg", "zero", 4), ("val", "mix", 5), ("chg", "octet_rule", 4)]
    grid.append(extras[seed % len(extras)])
    scopes, tasks = [], []
    for (an, tn, L) in grid:
        name = "%s/%s/L%d" % (an, tn, L)
        A = ALPHABETS[an]
        scopes.append({"name": name, "alphabet": A, "table": tn, "bound_L": L,
                       "tree_size": E1.tree_size(len(A), L) if an not in ATOM_FIRST else len(A) ** (L - 1) * len(A) // (len(A) - 1),
                       **({"restricted_to": "strings that start with " + A[0]} if an in ATOM_FIRST else {})})
        for sh in E1.shard_prefixes(A, L, 2 if an not in ATOM_FIRST else 3):
            if an in ATOM_FIRST and not (sh[0] == "sub" and sh[1][0] == 0):
                continue
            tasks.append((name, ("strings", an, tn, L, sh)))
    Lr = 4 if thorough else 3
    name = "robust-alphabet/default/L%d+rdkit" % Lr
    scopes.append({"name": name, "table": "default", "bound_L": Lr,
                   "desc": "every string of <= %d symbols over the whole get_semantic_robust_alphabet() of the "
                           "default table; every distinct output also through RDKit sanitisation" % Lr})
    tasks.append((name, ("robust", Lr, ("short", 1))))
    for i in range(200):   # upper bound on the alphabet size; shards beyond the real size are empty
        tasks.append((name, ("robust", Lr, ("sub", (i,)))))
    for fi, (fname, table, members) in enumerate(families(tier)):
        tn = table if isinstance(table, str) else "huge"
        name = "family/%s/%s" % (fname, tn)
        scopes.append({"name": name, "table": table, "members": len(members),
                       "range": "%s .. %s" % (members[0][0], members[-1][0])})
        for k in range(0, len(members), 20):
            tasks.append((name, ("family", fi, k, k + 20, tier)))
    return {"scopes": scopes, "tasks": tasks, "bounds": {"rings_max": 130, "nesting_max": 3000, "fragments_max": 50}}


_SF = None
_CUR = [None, None]
_RDK = {}


def worker_init():
    global _SF
    import selfies
    _SF = selfies


def use_table(tn):
    key = tn if isinstance(tn, str) else repr(sorted(tn.items()))
    if _CUR[0] != key:
        if isinstance(tn, str):
            _CUR[1] = tables.set_table(_SF, tn)
        else:
            _SF.set_semantic_constraints(dict(tn))
            _CUR[1] = dict(tn)
        _CUR[0] = key
    return _CUR[1]


def ring_bonds_expected(s, table):
    """number of ring bonds the documented derivation forms for s (used only to *name* a syntax failure:
    the writer numbers ring bonds 1,2,3,... so the 100th gets the illegal label %100)"""
    from mc.oracles import refmodel
    try:
        m = refmodel.decode(misc.tokenize(s), table)
    except Exception:
        return -1
    return sum(len(x) for x in m.ringnbrs) // 2


def check_output(out, table, s=None):
    """None or (sig, detail)"""
    if out == "":
        return None
    try:
        atoms = smiread.read_smiles(out)
    except smiread.SmiError as e:
        if s is not None and "%100" in out and ring_bonds_expected(s, table) >= 100:
            return "ring-label>99", "molecule has >= 100 ring bonds and the output spells the 100th with the " \
                                    "illegal label %%100 (reader: %s): ...%s" % (e, out[-40:])
        return "syntax:" + str(e), "output %r: %s" % (out[:200], e)
    sums = smiread.bond_sums(atoms)
    for i, a in enumerate(atoms):
        if a.arom:
            return "aromatic-atom-in-output", "output %r atom %d is lower-case" % (out[:200], i)
        cap = misc.capacity(table, a.elem, a.charge)
        tot = sums[i] + (a.h or 0)
        if tot > cap:
            return "valence-exceeded", "output %r: atom %d (%s) has bond-order sum %s + %s H > capacity %d" % (
                out[:200], i, a.text, sums[i], a.h or 0, cap)
    return None


def check_string(s, table, r, rdkit=False, case_extra=None):
    r.evaluations += 1
    r.states += 1
    r.transitions += 1
    try:
        out = _SF.decoder(s)
    except _SF.DecoderError:
        # C01 is about returned strings.  A rejection is fine when the derivation reaches a symbol that is outside
        # the grammar *under this table* (explicit H above the capacity, e.g. [CH2] under {'?': 0}); the reference
        # model decides that.  A rejection of a string whose every reached symbol is in the grammar is reported.
        from mc.oracles import refmodel
        try:
            refmodel.decode(misc.tokenize(s), table)
        except refmodel.Reject:
            r.cov["rejected: a reached symbol is outside the grammar under the table (C02's business)"] += 1
            return None
        r.violation("rejected-valid-string", dict({"kind": "string", "selfies": s, "table": table}, **(case_extra or {})),
                    "decoder rejected %r although every reached symbol is in the grammar" % s[:200])
        return None
    except Exception as e:
        r.violation("escaped-exception:" + type(e).__name__,
                    dict({"kind": "string", "selfies": s, "table": table}, **(case_extra or {})), repr(e)[:200])
        return None
    v = check_output(out, table, s)
    if v is None and rdkit and out:
        ok = _RDK.get(out)
        if ok is None:
            from rdkit import Chem
            ok = Chem.MolFromSmiles(out) is not None
            _RDK[out] = ok
        if not ok:
            v = ("rdkit-rejects", "RDKit sanitisation rejects %r decoded from %r" % (out, s))
    if v is None:
        r.validated += 1
    else:
        r.violation(v[0], dict({"kind": "string", "selfies": s if len(s) < 4000 else None, "table": table,
                                "rdkit": rdkit}, **(case_extra or {})), v[1])
    if out:
        r.nontrivial.add(h64(out))
    return out


def run(task):
    scope, arg = task
    r = Result()
    if arg[0] == "strings":
        _, an, tn, L, sh = arg
        table = use_table(tn)
        A = ALPHABETS[an]
        w = None
        for w in E1.nodes(A, L, sh):
            out = check_string("".join(w), table, r)
        if w is not None:
            r.sample({"scope": scope, "selfies": "".join(w), "decoder": out}, 1)
    elif arg[0] == "robust":
        _, L, sh = arg
        from rdkit import RDLogger
        RDLogger.DisableLog("rdApp.*")
        table = use_table("default")
        A = sorted(_SF.get_semantic_robust_alphabet())
        if sh[0] == "sub" and sh[1][0] >= len(A):
            return r
        w = None
        for w in E1.nodes(A, L, sh):
            out = check_string("".join(w), table, r, rdkit=True)
        r.extra["max_robust_alphabet_size"] = len(A)
        if w is not None:
            r.sample({"scope": scope, "selfies": "".join(w), "decoder": out}, 1)
    else:
        _, fi, lo, hi, tier = arg
        fname, table, members = families(tier)[fi]
        t = use_table(table)
        for label, s in members[lo:hi]:
            out = check_string(s, t, r, case_extra={"family": fname, "member": label})
        if lo == 0:
            r.sample({"scope": scope, "member": members[0][0], "selfies": members[0][1][:120], "decoder": None})
    return r


def replay(case):
    worker_init()
    _SF.set_semantic_constraints(dict(case["table"]))
    s = case.get("selfies")
    if s is None:
        for fname, table, members in families("thorough"):
            if fname == case.get("family"):
                for label, x in members:
                    if label == case.get("member"):
                        s = x
    r = Result()
    check_string(s, dict(case["table"]), r, rdkit=case.get("rdkit", False))
    return [(sig, v[0]["detail"]) for sig, v in r.viol.items()]
