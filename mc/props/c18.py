"""C18 - compatible=True is a conservative extension for pre-v2 symbols.

E1 over a mixed modern + legacy alphabet; three clauses per string:
  (a) with the flag the result equals decoder() on the string modernised by an independent table;
  (b) strings without legacy symbols are unaffected by the flag;
  (c) without the flag, the reference model run on the raw string decides (a legacy symbol rejects when it is
      reached as a rule, is digit 0 as an index symbol, is ignored after termination).
"""
from mc import enum_strings as E1
from mc import tables
from mc.oracles import deccmp, legacy
from mc.runner import Result, h64

PROPERTY = "C18"
RULE = ("every token string of length <= L over a mixed modern/legacy alphabet (prefix tree), plus the full "
        "[BranchL_M] / [Expl<B>RingL] grid and a grid of legacy atom spellings in fixed contexts; non-trivial = "
        "distinct non-empty SMILES returned with compatible=True for strings containing a legacy symbol")
ASSUMPTIONS = [
    "independent moderniser mc/oracles/legacy.py written from CHANGELOG v2.0.0 (documented equivalents)",
    "clause (a) compares the implementation with itself on the modernised string; what that string means is C02's business",
    "the DeprecationWarning-style message emitted on every compatible=True call is filtered",
]

A_MIX = ["[C]", "[=C]", "[O]", "[Ring1]", "[Branch1]",
         "[Branch1_1]", "[Branch1_2]", "[Branch2_3]", "[Expl=Ring1]", "[Expl#Ring2]", "[Expl/Ring1]", "[Expl\\Ring1]",
         "[Cexpl]", "[C@@Hexpl]", "[N+expl]", "[=O+expl]", "[/Cexpl]"]
A_MIX2 = ["[C]", "[#N]", "[Branch1_3]", "[Branch3_1]", "[Expl=Ring2]", "[Expl/Ring2]", "[=13CH2expl]", "[\\N-expl]",
          "[Fe++expl]", "[cexpl]", "[Xxexpl]", "[Branch1_4]", "[ExplRing1]", "[nop]", "[O-2expl]", "."]
A_MIX3 = ["[C]", "[=C]", "[#C]", "[S]", "[Branch1_1]", "[Branch1_2]", "[Branch1_3]", "[Expl=Ring1]", "[Expl#Ring1]", "[Ring1]"]
A_MIX4 = ["[C]", "[F]", "[Branch1_1]", "[Branch1]", "[Ring1]", "[nop]", "[=O]"]      # early-ending branches with [nop] in the discarded tail
ALPH = {"mix": A_MIX, "mix2": A_MIX2, "mix3": A_MIX3, "mix4": A_MIX4}

ATOM_GRID = []
for b in ("", "=", "#", "/", "\\"):
    for iso in ("", "13", "0"):
        for el in ("C", "N", "Fe", "Cl", "H", "c", "Xx"):
            for ch in ("", "@", "@@"):
                for h in ("", "H", "H0", "H1", "H3"):
                    for q in ("", "+", "++", "-", "--", "+1", "-2", "+0"):
                        ATOM_GRID.append("[%s%s%s%s%s%sexpl]" % (b, iso, el, ch, h, q))


LONG_UNITS = [("[Cexpl]",), ("[C@@Hexpl]", "[Branch1_1]", "[C]", "[Oexpl]"), ("[C]", "[C]", "[C]", "[Expl=Ring1]", "[Ring1]"),
              ("[C]", "[Branch1]", "[Branch1_2]", "[F]", "[Cl]", "[Br]", "[I]", "[O]"), ("[N+expl]", "[Branch2_3]", "[C]", "[Branch1_1]", "[=O]"),
              ("[C]", "[Expl/Ring1]", "[C]", "[/Cexpl]")]


def plan(tier, seed):
    thorough = tier == "thorough"
    grid = [("mix", "default", 5 if thorough else 4), ("mix2", "default", 5 if thorough else 4),
            ("mix3", "default", 7 if thorough else 6), ("mix4", "default", 7 if thorough else 6)]
    extras = [("mix", "mix", 3), ("mix2", "hypervalent", 3), ("mix", "big", 3)]
    grid.append(extras[seed % len(extras)])
    scopes, tasks = [], []
    for an, tn, L in grid:
        name = "%s/%s/L%d" % (an, tn, L)
        scopes.append({"name": name, "alphabet": ALPH[an], "table": tn, "bound_L": L,
                       "tree_size": E1.tree_size(len(ALPH[an]), L)})
        for sh in E1.shard_prefixes(ALPH[an], L, 2):
            tasks.append((name, ("strings", an, tn, L, sh)))
    scopes.append({"name": "LM-grid", "desc": "every [BranchL_M], [Expl<B>RingL] (L,M in 1..3, B in = # / \\) in the "
                                              "contexts '[C][C][C]' + X + d1 d2 d3 + '[O][N][F]' for index digits d in "
                                              "([C],[Ring1],[Branch1_1],[O])"})
    tasks.append(("LM-grid", ("lm",)))
    ns = (1, 2, 10, 100, 255, 256, 257, 300, 1000, 3000) + ((10000,) if thorough else ())
    scopes.append({"name": "long-legacy-strings", "repetitions": list(ns), "units": LONG_UNITS,
                   "desc": "the number of legacy symbols per fragment / per string is unbounded: each unit repeated n times, as "
                           "one fragment and as n fragments"})
    for k in range(len(LONG_UNITS)):
        tasks.append(("long-legacy-strings", ("long", k, ns)))
    scopes.append({"name": "atom-grid", "desc": "%d legacy atom spellings (bond x isotope x element x chirality x H x "
                                                "charge) in contexts X, [C]X[C], [C][Branch1_1][C]X[O]" % len(ATOM_GRID)})
    for k in range(0, len(ATOM_GRID), 400):
        tasks.append(("atom-grid", ("atoms", k, k + 400)))
    return {"scopes": scopes, "tasks": tasks, "bounds": {"max_L": max(g[2] for g in grid)}}


_SF = None
_CUR = [None, None]


def worker_init():
    global _SF
    import selfies
    _SF = selfies


def use_table(tn):
    if _CUR[0] != tn:
        _CUR[1] = tables.set_table(_SF, tn)
        _CUR[0] = tn
    return _CUR[1]


def out(s, **kw):
    try:
        return ("ok", _SF.decoder(s, **kw))
    except _SF.DecoderError:
        return ("DecoderError",)
    except Exception as e:
        return ("exc", type(e).__name__)


def check(w, table, r):
    s = "".join(w)
    r.evaluations += 1
    r.states += 1
    r.transitions += 1
    case = {"selfies": s, "tokens": list(w), "table": table}
    got = out(s, compatible=True)
    mod = "".join(legacy.modern(x) for x in w)
    exp = out(mod)
    ok = True
    if got != exp:
        ok = False
        r.violation("compatible!=modernised", case, "decoder(%r, compatible=True)=%r but decoder(%r)=%r" % (s, got, mod, exp))
    has_legacy = any(legacy.is_legacy(x) for x in w)
    plain = out(s)
    if not has_legacy:
        if got != plain:
            ok = False
            r.violation("flag-changes-modern-string", case, "decoder(%r)=%r but with compatible=True %r" % (s, plain, got))
    else:
        if got[0] == "ok" and got[1]:
            r.nontrivial.add(h64(got[1]))
        # the flag keeps its meaning next to the decoder's other flag (legacy symbols are modernised wherever the decoder
        # reads them - as rules and as index symbols - also on the attributed path)
        both = out(s, compatible=True, attribute=True)
        if both[0] == "ok" and isinstance(both[1], tuple):
            both = ("ok", both[1][0])
        if both != got:
            ok = False
            r.violation("compatible+attribute!=compatible", case,
                        "decoder(%r, compatible=True) gives %r, with attribute=True also set %r" % (s, got, both))
    # without the flag: the reference model on the raw tokens decides
    verdict, _ = deccmp.compare(_SF, s, w, table)
    if verdict is not None:
        ok = False
        r.violation("noflag:" + verdict[0], case, verdict[1])
    if ok:
        r.validated += 1
    return got


def check_long(w, table, r):
    """clause (a) and the no-flag rejection on a long string (the model comparison is left to the short strings)"""
    s = "".join(w)
    r.evaluations += 1
    r.states += 1
    r.transitions += 1
    case = {"selfies": s if len(s) < 400 else None, "tokens": list(w) if len(w) < 60 else None, "table": table,
            "unit_times_n": ["".join(w[:8]), len(w)]}
    got = out(s, compatible=True)
    exp = out("".join(legacy.modern(x) for x in w))
    ok = True
    if got != exp:
        ok = False
        r.violation("compatible!=modernised", case, "string of %d symbols (%s...): compatible=True gives %r, the modernised string %r" % (
            len(w), s[:60], str(got)[:80], str(exp)[:80]))
    both = out(s, compatible=True, attribute=True)
    if both[0] == "ok" and isinstance(both[1], tuple):
        both = ("ok", both[1][0])
    if both != got:
        ok = False
        r.violation("compatible+attribute!=compatible", case, "string of %d symbols (%s...)" % (len(w), s[:60]))
    # without the flag: rejected exactly when the reference model reaches a legacy symbol as a rule (in index position it is digit 0)
    from mc.oracles import refmodel
    try:
        refmodel.decode(w, table)
        want = "ok"
    except refmodel.Reject:
        want = "DecoderError"
    if out(s)[0] != want:
        ok = False
        r.violation("noflag:accepts-outside-grammar" if want != "ok" else "noflag:rejects-inside-grammar", case,
                    "string of %d symbols (%s...): without the flag the decoder gives %s, the model %s" % (len(w), s[:60], out(s)[0], want))
    if ok:
        r.validated += 1
        if got[0] == "ok":
            r.nontrivial.add(h64(got[1]))


def run(task):
    scope, arg = task
    r = Result()
    if arg[0] == "strings":
        _, an, tn, L, sh = arg
        table = use_table(tn)
        w = None
        for w in E1.nodes(ALPH[an], L, sh):
            got = check(w, table, r)
        if w is not None:
            r.sample({"scope": scope, "selfies": "".join(w), "compatible": got,
                      "modernised": "".join(legacy.modern(x) for x in w)}, 1)
    elif arg[0] == "lm":
        table = use_table("default")
        syms = ["[Branch%d_%d]" % (L, M) for L in (1, 2, 3) for M in (1, 2, 3)]
        syms += ["[Expl%sRing%d]" % (b, L) for b in "=#/\\" for L in (1, 2, 3)]
        digs = ["[C]", "[Ring1]", "[Branch1_1]", "[O]"]
        import itertools
        # tails with multiple bonds, so that both the branch's initial state and the state left on the main chain
        # (which depend on M of [BranchL_M] / the bond of [Expl<B>RingL]) are observable
        tails = (("[O]", "[N]", "[F]"), ("[#C]", "[=O]"), ("[=C]", "[#N]"))
        for x in syms:
            for d in itertools.product(digs, repeat=3):
                for head in (("[C]", "[C]", "[C]"), ("[S]",), ("[C]",), ("[P]", "[C]"), ()):
                    for tail in tails:
                        check(head + (x,) + d + tail, table, r)
            for body in (("[#C]",), ("[=C]", "[=C]"), ("[#N]",)):
                for tail in tails:
                    for head in (("[C]",), ("[S]",), ("[N]",)):
                        check(head + (x, "[C]") + body + tail, table, r)
                        check(head + (x, "[Ring1]") + body + tail, table, r)
        r.sample({"scope": scope, "selfies": "[C][C][C][Branch2_3][Ring1][Branch1_1][O][O][N][F]"}, 1)
    elif arg[0] == "long":
        _, k, ns = arg
        table = use_table("default")
        u = LONG_UNITS[k]
        for n in ns:
            check_long(u * n, table, r)
            if n <= 1000:
                check_long(((u + (".",)) * n)[:-1], table, r)
        r.sample({"scope": scope, "selfies": "".join(u) + " x n"}, 1)
    else:
        _, lo, hi = arg
        table = use_table("default")
        for x in ATOM_GRID[lo:hi]:
            check((x,), table, r)
            check(("[C]", x, "[C]"), table, r)
            check(("[C]", "[Branch1_1]", "[C]", x, "[O]"), table, r)
        r.sample({"scope": scope, "selfies": "[C]" + ATOM_GRID[lo] + "[C]"}, 1)
    return r


def replay(case):
    worker_init()
    _SF.set_semantic_constraints(dict(case["table"]))
    r = Result()
    check(tuple(case["tokens"]), case["table"], r)
    return [(sig, v[0]["detail"]) for sig, v in r.viol.items()]
