"""C16 - index symbols form a base-16 positional code shared by encoder and decoder.

Exhaustive: every n < 16^4 (16^5 thorough) on the encoder-side conversion, every symbol tuple of length <= 3 (4)
over 16 index symbols + 2 non-index + 'missing' on the decoder-side conversion, and - through the public API only -
every such tuple behind [RingL] / [BranchL] (ring target / branch length read back from the decoded SMILES by the
independent reader) and every ring distance / branch length 1..4096 through selfies.encoder.
"""
import itertools

from mc.runner import Result, h64
from mc.oracles import misc, smiread

PROPERTY = "C16"
RULE = ("prefix tree of index-symbol tuples (state = tuple prefix, transition = append one of 19 digit tokens: the 16 "
        "index symbols, two non-index symbols, 'missing'); every tuple is evaluated on the implementation and "
        "compared with an independent positional code; non-trivial = distinct index values actually realised by "
        "the implementation (ring target / branch length / returned integer)")
ASSUMPTIONS = [
    "index values are observed through ring targets and branch lengths in decoder output re-read by an independent "
    "SMILES reader, and through the exact symbols selfies.encoder emits",
    "internal helpers get_index_from_selfies / get_selfies_from_index are additionally checked when they exist "
    "under those names (a refactor that removes them only drops that scope, reported as a cap)",
]

NONINDEX = ["[F]", "[=O]", "[epsilon]"]     # any symbol outside the sixteen is digit 0, also the one that is a rule of its own
DIGITS = misc.INDEX + NONINDEX + [None]


def tuples(L):
    """all L-tuples; None ('missing') only as a suffix for API strings"""
    return itertools.product(DIGITS, repeat=L)


def api_tuple_selected(t, thorough):
    """quick tier: every 1- and 2-tuple, every 3-tuple with Q < 512, and for larger first digits the
    fixed sub-grid (d2, d3) in {first, last, mirrored digit}; thorough: everything."""
    if thorough or len(t) < 3:
        return True
    f = DIGITS.index(t[0])
    if f <= 1 or f >= 16:
        return True
    rest = (DIGITS.index(t[1]), DIGITS.index(t[2]))
    return rest in ((0, 0), (15, 15), (f, 15 - f), (18, 18))


def suffix_none(t):
    seen = False
    for x in t:
        if x is None:
            seen = True
        elif seen:
            return False
    return True


def plan(tier, seed):
    thorough = tier == "thorough"
    nmax = 16 ** 5 if thorough else 16 ** 4
    tasks = []
    chunk = 4096 if not thorough else 32768
    for lo in range(0, nmax, chunk):
        tasks.append(("enc_fn", (lo, min(nmax, lo + chunk))))
    for first in range(len(DIGITS)):
        tasks.append(("dec_fn", (first, 4 if thorough else 3)))
    ring_prefixes = ["", "="] if not thorough else ["", "=", "#", "-/", "\\/"]
    for L in (1, 2, 3):
        for first in range(len(DIGITS)):
            for pre in ring_prefixes:
                tasks.append(("dec_api_ring", (L, first, pre, thorough)))
            tasks.append(("dec_api_branch", (L, first, thorough)))
    nenc = 4100
    if thorough:
        enc_ns = list(range(1, nenc))
    else:
        # the decoder's SMILES writer is quadratic in the chain length, so the quick tier keeps every n that
        # needs one or two index symbols plus the 2->3 and 3->4 symbol boundaries, and a fixed stride between
        enc_ns = sorted(set(range(1, 601)) | set(range(600, 4090, 97)) | set(range(4090, nenc)))
    for k in range(0, len(enc_ns), 25):
        tasks.append(("enc_api", enc_ns[k:k + 25]))
    from mc.props import c01
    nb = [f for f in c01.families(tier) if f[0] == "nested-budgets" and f[1] == "default"][0][2]
    for k in range(0, len(nb), 200):
        tasks.append(("dec_nested", (k, k + 200, tier)))
    scopes = [
        {"name": "dec_nested", "desc": "%d strings: an outer branch of every budget around an inner branch whose last symbol is a ring "
                                       "or branch symbol, so that index symbols lie beyond the inner (and around the outer) budget; the "
                                       "decoder against the reference model (what the index of every branch symbol spans)" % len(nb)},
        {"name": "enc_fn", "desc": "encoder-side conversion of every n in [0,%d)" % nmax},
        {"name": "dec_fn", "desc": "decoder-side conversion of every tuple of length 1..%d over 19 digit tokens"
                                   % (4 if thorough else 3)},
        {"name": "dec_api_ring", "desc": "'[C]'*(Q+3) + [<p>RingL] + L digit tokens for every tuple, L=1..3 "
                                         "(quick: 3-tuples with Q>=512 restricted to a fixed sub-grid), "
                                         "prefixes %r; ring partner of the last atom read back" % ring_prefixes},
        {"name": "dec_api_branch", "desc": "[C][BranchL] + L digit tokens + '[C]'*(Q+3) for every tuple; "
                                           "where the main chain resumes is read back"},
        {"name": "enc_api", "desc": "ring distance n and branch length n for every n in 1..%d through "
                                    "selfies.encoder (exact symbols) and back through selfies.decoder"
                                    % (nenc - 1) if thorough else
                                    "ring distance / branch length n for n in 1..600, every 97th up to 4090, and "
                                    "4090..4099, through selfies.encoder (exact symbols) and back through the decoder"},
    ]
    return {"scopes": scopes, "tasks": tasks, "bounds": {"n_max": nmax, "tuple_len": 4 if thorough else 3,
                                                         "api_n_max": nenc - 1},
            "weight": lambda t: (t[1][-1] if t[0] == "enc_api" else 0)}


def run(task):
    scope, arg = task
    return globals()["run_" + scope](arg)


def run_dec_nested(arg):
    from mc.props import c01
    from mc.oracles import deccmp
    import selfies as sf
    lo, hi, tier = arg
    r = Result()
    nb = [f for f in c01.families(tier) if f[0] == "nested-budgets" and f[1] == "default"][0][2]
    sf.set_semantic_constraints("".join(list("default")))
    table = sf.get_semantic_constraints()
    for label, x in nb[lo:hi]:
        r.evaluations += 1
        r.transitions += 1
        verdict, got = deccmp.compare(sf, x, misc.tokenize(x), table)
        if verdict is not None:
            r.violation("dec_nested:" + verdict[0], {"kind": "dec_nested", "selfies": x}, verdict[1])
        else:
            r.validated += 1
            r.nontrivial.add(h64(x))
    r.states = r.evaluations
    if lo == 0:
        r.sample({"string": nb[0][1]}, 1)
    return r


def _fns():
    import importlib
    try:
        g = importlib.import_module("selfies.grammar_rules")
        return getattr(g, "get_selfies_from_index", None), getattr(g, "get_index_from_selfies", None)
    except Exception:
        return None, None


def run_enc_fn(arg):
    lo, hi = arg
    r = Result()
    enc, dec = _fns()
    if enc is None:
        r.caps.append("selfies.grammar_rules.get_selfies_from_index not found (scope enc_fn skipped)")
        return r
    for n in range(lo, hi):
        r.evaluations += 1
        r.transitions += 1
        exp = misc.index_symbols(n)
        try:
            got = list(enc(n))
        except Exception as e:
            got = "raised %s" % type(e).__name__
        if got != exp:
            r.violation("enc_fn:wrong-digits", {"kind": "enc_fn", "n": n}, "get_selfies_from_index(%d)=%r expected %r"
                        % (n, got, exp))
            continue
        r.validated += 1
        r.nontrivial.add(h64(("v", n)))
        if dec is not None:
            back = dec(*got)
            if back != n:
                r.violation("enc_fn:roundtrip", {"kind": "enc_fn", "n": n}, "decoder-side gives %r for %r" % (back, got))
    r.states = hi - lo
    r.sample({"n": hi - 1, "symbols": misc.index_symbols(hi - 1)}, 1)
    return r


def run_dec_fn(arg):
    first, maxlen = arg
    r = Result()
    enc, dec = _fns()
    if dec is None:
        r.caps.append("selfies.grammar_rules.get_index_from_selfies not found (scope dec_fn skipped)")
        return r
    for L in range(1, maxlen + 1):
        for rest in itertools.product(DIGITS, repeat=L - 1):
            t = (DIGITS[first],) + rest
            r.evaluations += 1
            r.transitions += 1
            exp = misc.index_value(t)
            try:
                got = dec(*t)
            except Exception as e:
                got = "raised %s" % type(e).__name__
            if got != exp:
                r.violation("dec_fn:wrong-value", {"kind": "dec_fn", "tuple": list(t)},
                            "get_index_from_selfies%r=%r expected %r" % (t, got, exp))
            else:
                r.validated += 1
                r.nontrivial.add(h64(("v", got)))
    r.states = r.evaluations
    r.sample({"tuple": [DIGITS[first], "[S]", None], "value": misc.index_value((DIGITS[first], "[S]", None))}, 1)
    return r


def _decode(s):
    import selfies as sf
    return sf.decoder(s)


def check_ring_tuple(L, t, pre):
    """returns None or (sig, detail)"""
    q = misc.index_value(t)
    n = q + 3
    s = "[C]" * n + "[%sRing%d]" % (pre, L) + "".join(x for x in t if x is not None)
    try:
        out = _decode(s)
        atoms = smiread.read_smiles(out)
    except Exception as e:
        return "dec_api_ring:error", "%s on %r" % (type(e).__name__, s if len(s) < 200 else s[-120:])
    if len(atoms) != n:
        return "dec_api_ring:atom-count", "%d atoms, expected %d" % (len(atoms), n)
    b = smiread.bonds_of(atoms)
    last = n - 1
    order = {"": 1, "=": 2, "#": 3}.get(pre, 1)
    # the last chain atom is in state 3, but the partner is a mid-chain carbon with two free valences, so the
    # second pass clips the ring bond to order 2 (minimal bond-order reduction)
    order = min(order, 2)
    if q == 0:
        exp = {(last - 1, last): min(3, 1 + order)}
    else:
        exp = {(last - 1, last): 1, (1, last): order}
    got = {k: v for k, v in b.items() if k[1] == last}
    if got != exp:
        return "dec_api_ring:wrong-target", "tuple %r Q=%d: bonds at last atom %r expected %r" % (t, q, got, exp)
    # the same ring symbol as the *last* symbol an enclosing branch may derive: its index symbols lie beyond the branch's
    # budget and are still its index symbols (derivation.rst: the symbols after a ring symbol are read as its index)
    if n <= 4095 and None not in t:      # (missing index symbols only exist at the very end of a string)
        qs = misc.index_symbols(n)
        s2 = "[N][Branch%d]" % len(qs) + "".join(qs) + "[C]" * n + "[%sRing%d]" % (pre, L) + "".join(x for x in t if x is not None) + "[O]"
        try:
            atoms = smiread.read_smiles(_decode(s2))
        except Exception as e:
            return "dec_api_ring:error", "%s on %r" % (type(e).__name__, s2 if len(s2) < 200 else s2[-120:])
        b = smiread.bonds_of(atoms)
        last = n
        if q == 0:
            exp = {(last - 1, last): min(3, 1 + order)}
        else:
            exp = {(last - 1, last): 1, (2, last): order}
        got = {k: v for k, v in b.items() if k[1] == last}
        tail_ok = len(atoms) == n + 2 and atoms[-1].elem == "O" and (0, n + 1) in b
        if got != exp or not tail_ok:
            return "dec_api_ring:wrong-target-at-branch-end", "tuple %r Q=%d in %r: bonds at the ring atom %r expected %r; %d atoms, [O] on N: %r" % (
                t, q, s2 if len(s2) < 120 else s2[:40] + "..." + s2[-60:], got, exp, len(atoms), tail_ok)
    return None


def run_dec_api_ring(arg):
    L, first, pre, thorough = arg
    r = Result()
    for rest in itertools.product(DIGITS, repeat=L - 1):
        t = (DIGITS[first],) + rest
        if not suffix_none(t) or not api_tuple_selected(t, thorough):
            continue
        r.evaluations += 1
        r.transitions += 1
        v = check_ring_tuple(L, t, pre)
        if v:
            r.violation(v[0], {"kind": "dec_api_ring", "L": L, "tuple": list(t), "prefix": pre}, v[1])
        else:
            r.validated += 1
            r.nontrivial.add(h64(("ring", misc.index_value(t))))
    r.states = r.evaluations
    if first == 5:
        r.sample({"string": "[C]*(Q+3)[%sRing%d]%s" % (pre, L, DIGITS[first]) + "...", "Q_first_digit": first}, 1)
    return r


def check_branch_tuple(L, t):
    q = misc.index_value(t)
    n = q + 3
    s = "[C][Branch%d]" % L + "".join(x if x is not None else "" for x in t)
    if None in t:
        # missing digits are only possible at the very end of the string: the branch is empty
        try:
            out = _decode(s)
        except Exception as e:
            return "dec_api_branch:error", "%s on %r" % (type(e).__name__, s)
        if out != "C":
            return "dec_api_branch:missing-digit", "%r -> %r expected 'C'" % (s, out)
        return None
    s += "[C]" * (n - 1)
    try:
        out = _decode(s)
        atoms = smiread.read_smiles(out)
    except Exception as e:
        return "dec_api_branch:error", "%s on %r" % (type(e).__name__, s if len(s) < 200 else s[:120])
    if len(atoms) != n:
        return "dec_api_branch:atom-count", "%d atoms, expected %d" % (len(atoms), n)
    kids = [e[1] for e in atoms[0].nbrs if e[0] == "child"]
    if kids != [1, q + 2]:
        return "dec_api_branch:wrong-length", "tuple %r Q=%d: children of atom 0 %r expected %r" % (
            t, q, kids, [1, q + 2])
    return None


def run_dec_api_branch(arg):
    L, first, thorough = arg
    r = Result()
    for rest in itertools.product(DIGITS, repeat=L - 1):
        t = (DIGITS[first],) + rest
        if not suffix_none(t) or not api_tuple_selected(t, thorough):
            continue
        r.evaluations += 1
        r.transitions += 1
        v = check_branch_tuple(L, t)
        if v:
            r.violation(v[0], {"kind": "dec_api_branch", "L": L, "tuple": list(t)}, v[1])
        else:
            r.validated += 1
            r.nontrivial.add(h64(("branch", misc.index_value(t))))
    r.states = r.evaluations
    return r


def check_enc(n):
    import selfies as sf
    out = []
    digs = misc.index_symbols(n - 1)
    L = len(digs)
    # ring of distance n (n >= 2): atom 0 ... atom n
    if n >= 2:
        smi = "C1" + "C" * n + "1"
        exp = "[C]" * (n + 1) + "[Ring%d]" % L + "".join(digs)
        try:
            got = sf.encoder(smi)
        except Exception as e:
            got = "raised %s" % type(e).__name__
        if L <= 3:
            if got != exp:
                out.append(("enc_api:ring-symbols", "ring distance %d: %r expected ...%r" % (n, got[-60:], exp[-60:])))
            else:
                try:
                    atoms = smiread.read_smiles(sf.decoder(got))
                    b = smiread.bonds_of(atoms)
                    if len(atoms) != n + 1 or b.get((0, n)) != 1 or len(b) != n + 1:
                        out.append(("enc_api:ring-roundtrip", "ring distance %d not recovered" % n))
                except Exception as e:
                    out.append(("enc_api:ring-roundtrip", "ring distance %d: %s" % (n, type(e).__name__)))
        else:
            # beyond the documented three-symbol limit: must not silently produce a *different* ring
            if isinstance(got, str) and not got.startswith("raised"):
                try:
                    atoms = smiread.read_smiles(sf.decoder(got))
                    if smiread.bonds_of(atoms).get((0, n)) != 1:
                        out.append(("enc_api:ring-beyond-limit-silent", "ring distance %d silently changed" % n))
                except sf.DecoderError:
                    pass  # C10 documents the limit; a loud failure is not C16's business
    smi = "C(" + "C" * n + ")C"
    exp = "[C][Branch%d]" % L + "".join(digs) + "[C]" * (n + 1)
    try:
        got = sf.encoder(smi)
    except Exception as e:
        got = "raised %s" % type(e).__name__
    if L <= 3:
        if got != exp:
            out.append(("enc_api:branch-symbols", "branch length %d: %r expected %r..." % (n, got[:60], exp[:60])))
        else:
            try:
                atoms = smiread.read_smiles(sf.decoder(got))
                kids = [e[1] for e in atoms[0].nbrs if e[0] == "child"]
                if len(atoms) != n + 2 or kids != [1, n + 1]:
                    out.append(("enc_api:branch-roundtrip", "branch length %d not recovered (%r)" % (n, kids)))
            except Exception as e:
                out.append(("enc_api:branch-roundtrip", "branch length %d: %s" % (n, type(e).__name__)))
    return out


def run_enc_api(arg):
    r = Result()
    for n in arg:
        r.evaluations += 2
        r.transitions += 2
        vs = check_enc(n)
        for sig, detail in vs:
            r.violation(sig, {"kind": "enc_api", "n": n}, detail)
        if not vs:
            r.validated += 2
            r.nontrivial.add(h64(("enc", n)))
    r.states = len(arg)
    if arg[0] == 1:
        r.sample({"smiles": "C1" + "C" * 17 + "1", "expected_selfies_tail": "[Ring2]" + "".join(misc.index_symbols(16))})
    return r


def replay(case):
    k = case["kind"]
    out = []
    if k == "enc_fn":
        rr = run_enc_fn((case["n"], case["n"] + 1))
    elif k == "dec_fn":
        enc, dec = _fns()
        t = tuple(case["tuple"])
        got = dec(*t)
        return [] if got == misc.index_value(t) else [("dec_fn:wrong-value", "%r -> %r" % (t, got))]
    elif k == "dec_api_ring":
        v = check_ring_tuple(case["L"], tuple(case["tuple"]), case["prefix"])
        return [v] if v else []
    elif k == "dec_api_branch":
        v = check_branch_tuple(case["L"], tuple(case["tuple"]))
        return [v] if v else []
    elif k == "enc_api":
        return check_enc(case["n"])
    elif k == "dec_nested":
        from mc.oracles import deccmp
        import selfies as sf
        sf.set_semantic_constraints("default")
        verdict, got = deccmp.compare(sf, case["selfies"], misc.tokenize(case["selfies"]), sf.get_semantic_constraints())
        return [("dec_nested:" + verdict[0], verdict[1])] if verdict else []
    for sig, lst in rr.viol.items():
        for v in lst:
            out.append((sig, v["detail"]))
    return out
