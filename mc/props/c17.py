"""C17 - attribution is observation-only and truthful about tokens.

Decoder: E1 over an alphabet with nested branches, rings, [nop] and '.', under two tables.
  (a) decoder(x, attribute=True)[0] == decoder(x)
  (b) every entry's token is found in the output SMILES ending at the reported character index
  (c) every contributing token is the symbol at the reported position of the input (counting symbols, ignoring
      [nop] and '.')
  (d) every output atom is attributed to the atom symbol that created it plus the enclosing branch symbols, as
      computed by the reference model O2 (which tracks symbol positions)
Encoder: E2 written forms (topology, bond symbols, bracket atoms, multi-fragment)
  (e) encoder(s, attribute=True)[0] == encoder(s)
  (f) for the k-th atom of the input there is an entry whose token is the k-th atom symbol of the output and whose
      attribution is exactly (token index, token text) of that SMILES atom.
"""
import collections
import itertools
import re

from mc import enum_smiles as E2
from mc import enum_strings as E1
from mc import tables
from mc.oracles import misc, refmodel, smiread
from mc.runner import Result, h64

PROPERTY = "C17"
RULE = ("decoder: every token string of length <= L over the alphabet (prefix tree) x tables; encoder: every written "
        "form of the G1 scopes; non-trivial = distinct (output, attribution list) pairs")
ASSUMPTIONS = [
    "positions of input symbols count symbols of the whole input, ignoring [nop] and '.'; output indices are the "
    "character index of the last character of the token in the returned SMILES",
    "SMILES token indices are counted as in tests/test_selfies.py::test_encoder_attribution and the README: atoms, "
    "bond characters, parentheses and ring labels count one each, '.' does not; for a ring label carrying its own bond "
    "character both conventions (label counts 1 or 2) are accepted",
    "the encoder clause is existence-based: the property does not promise the position the encoder reports for its own "
    "output symbols",
]

A_DEC = ["[C]", "[=C]", "[N]", "[O]", "[F]", "[Branch1]", "[=Branch1]", "[Ring1]", "[=Ring1]", "[nop]", ".", "[Foo]"]
A_DEC2 = ["[C]", "[#C]", "[S]", "[#Branch2]", "[Branch1]", "[Ring2]", "[Ring1]", ".", "[CH1]", "[/C]", "[CH4]"]
ALPH = {"dec": A_DEC, "dec2": A_DEC2}
RELAXED = {"?": 12}
ATOM_TOK = re.compile(r"\[[^\]]*\]|Br|Cl|[BCNOPSFI]")


def plan(tier, seed):
    thorough = tier == "thorough"
    scopes, tasks = [], []
    grid = [("dec", "default", 6 if thorough else 5), ("dec2", "default", 6 if thorough else 5),
            ("dec", "mix", 5 if thorough else 4)]
    for an, tn, L in grid:
        name = "decoder/%s/%s/L%d" % (an, tn, L)
        scopes.append({"name": name, "alphabet": ALPH[an], "table": tn, "bound_L": L,
                       "tree_size": E1.tree_size(len(ALPH[an]), L)})
        for sh in E1.shard_prefixes(ALPH[an], L, 2):
            tasks.append((name, ("dec", an, tn, L, sh)))
    from mc.props import c01
    for fi, (fname, table, members) in enumerate(c01.families(tier)):
        if fname in ("long",):
            continue
        name = "decoder/family/%s/%s" % (fname, table if isinstance(table, str) else "huge")
        scopes.append({"name": name, "members": "those with < 100 ring bonds and < 1500 symbols", "table": table,
                       "desc": "C01's parametric families (many rings incl. two-digit %nn labels, rings across "
                               "fragments, deep nesting, branch budgets) with the attribution oracle"})
        for k in range(0, len(members), 10):
            tasks.append((name, ("fam", fi, k, k + 10, tier)))
    nt, rt = (7, 2) if thorough else (6, 2)
    scopes.append({"name": "encoder/forms", "n_max": nt, "r_max": rt,
                   "desc": "every written form x first-bond in {'', '='} x first atom in {C, [O-], Cl}; each also followed by "
                           "a second fragment ('.N' or '.N1CC1')", "table": RELAXED})
    for n in range(1, nt + 1):
        for pi, _ in enumerate(E2.parent_vectors(n)):
            tasks.append(("encoder/forms", ("enc", n, pi, rt)))
    nc = 6 if thorough else 5
    scopes.append({"name": "encoder/chiral-forms", "n_max": nc, "r_max": 2, "tags": ["[C@]", "[C@@H]"],
                   "desc": "ring-bearing written forms (standard and lenient spellings) with a stereo-centre at every position "
                           "(the encoder rewrites such atoms), '/' on the first bond, multi-fragment variant", "table": RELAXED})
    for n in range(3, nc + 1):
        for pi, _ in enumerate(E2.parent_vectors(n)):
            tasks.append(("encoder/chiral-forms", ("encchir", n, pi)))
    return {"scopes": scopes, "tasks": tasks, "bounds": {"decoder_L": grid[0][2], "encoder": [nt, rt]}}


_SF = None
_CUR = [None, None]


def worker_init():
    global _SF
    import selfies
    _SF = selfies


def use_table(tn):
    key = repr(tn)
    if _CUR[0] != key:
        if isinstance(tn, str):
            _CUR[1] = tables.set_table(_SF, tn)
        else:
            _SF.set_semantic_constraints(dict(tn))
            _CUR[1] = dict(tn)
        _CUR[0] = key
    return _CUR[1]


def _plain_map(am):
    return [(a.index, a.token, [(x.index, x.token) for x in (a.attribution or [])]) for a in am]


def check_decoder(w, table, r):
    s = "".join(w)
    r.evaluations += 1
    r.states += 1
    r.transitions += 1
    try:
        m = refmodel.decode(w, table)
    except refmodel.Reject:
        # the call is still made (a rejected attributed decode must leave no trace for the calls that follow in
        # this long-lived worker) and must be rejected the same way with and without the flag
        for kw in ({"attribute": True}, {}):
            try:
                _SF.decoder(s, **kw)
                r.violation("accepts-outside-grammar", {"kind": "decoder", "selfies": s, "table": table},
                            "decoder(%r, %r) returned although the model rejects a reached symbol" % (s, kw))
            except _SF.DecoderError:
                pass
            except Exception as e:
                r.violation("decoder-raises:" + type(e).__name__, {"kind": "decoder", "selfies": s, "table": table}, repr(e)[:200])
        return None
    case = {"kind": "decoder", "selfies": s, "table": table}
    try:
        plain = _SF.decoder(s)
        res = _SF.decoder(s, attribute=True)
    except Exception as e:
        r.violation("decoder-raises:" + type(e).__name__, case, repr(e)[:200])
        return None
    if not (isinstance(res, tuple) and len(res) == 2):
        r.violation("bad-return-shape", case, repr(type(res)))
        return None
    out, am = res
    if out != plain:
        r.violation("attribute-changes-translation", case, "decoder(%r)=%r but with attribute=True %r" % (s, plain, out))
        return None
    # the same clause next to the decoder's other flag: for a string of modern symbols compatible=True changes nothing,
    # so string and map must equal the ones obtained without it
    try:
        res2 = _SF.decoder(s, compatible=True, attribute=True)
        plain2 = _SF.decoder(s, compatible=True)
    except Exception as e:
        r.violation("decoder-raises:" + type(e).__name__, case, "with compatible=True: " + repr(e)[:200])
        return None
    if not (isinstance(res2, tuple) and len(res2) == 2) or res2[0] != plain2 or plain2 != plain or _plain_map(res2[1]) != _plain_map(am):
        r.violation("attribute-changes-translation:compatible", case,
                    "decoder(%r, compatible=True): plain %r, attributed %r (map equal to the one without the flag: %r)" % (
                        s, plain2, res2[0] if isinstance(res2, tuple) else res2,
                        isinstance(res2, tuple) and _plain_map(res2[1]) == _plain_map(am)))
        return None
    symbols = [t for t in w if t not in ("[nop]", ".")]
    ok = True
    # (b) (c) for every entry
    for e in am:
        tok, idx = e.token, e.index
        if out[idx - len(tok) + 1: idx + 1] != tok or idx - len(tok) + 1 < 0:
            ok = False
            r.violation("decoder:output-index" + (":multi-fragment" if "." in out else ""), case,
                        "entry token %r reported at index %r but output %r has %r there" % (
                            tok, idx, out, out[max(0, idx - len(tok) + 1): idx + 1]))
            break
        for a in (e.attribution or []):
            if not (0 <= a.index < len(symbols)) or symbols[a.index] != a.token:
                ok = False
                r.violation("decoder:input-position", case,
                            "entry %r claims input symbol %r at position %r, but position %r of %r is %r" % (
                                tok, a.token, a.index, a.index, s,
                                symbols[a.index] if 0 <= a.index < len(symbols) else None))
                break
        if not ok:
            break
    # (d) every output atom
    if ok:
        pos = [(mt.start(), mt.group()) for mt in ATOM_TOK.finditer(out)]
        if len(pos) != len(m.atoms):
            r.violation("decoder:atom-count-vs-model", case, "output %r has %d atoms, model %d" % (out, len(pos), len(m.atoms)))
            return out
        byend = collections.defaultdict(list)
        for e in am:
            byend[(e.index, e.token)].append(e)
        for k, (st, tok) in enumerate(pos):
            want = m.attr[k]
            # the library's index convention is tolerated here only through clause (b); look the entry up by token
            cands = [e for e in am if e.token == tok and [(a.index, a.token) for a in (e.attribution or [])] == want]
            exact = [e for e in byend.get((st + len(tok) - 1, tok), [])
                     if [(a.index, a.token) for a in (e.attribution or [])] == want]
            if not cands:
                ok = False
                near = [[(a.index, a.token) for a in (e.attribution or [])] for e in am if e.token == tok][:3]
                r.violation("decoder:atom-attribution", case,
                            "atom %d (%r) of %r should be attributed to %r; entries with that token have %r" % (
                                k, tok, out, want, near))
                break
            if not exact:
                ok = False
                r.violation("decoder:atom-entry-index" + (":multi-fragment" if "." in out else ""), case,
                            "atom %d (%r) of %r ends at character %d but no entry with its attribution reports that index"
                            % (k, tok, out, st + len(tok) - 1))
                break
    if ok:
        r.validated += 1
        r.nontrivial.add(h64((out, tuple((e.index, e.token, tuple((a.index, a.token) for a in (e.attribution or []))) for e in am))))
    return out


SMI_TOK = re.compile(r"\[[^\]]*\]|Br|Cl|[BCNOPSFIbcnops]|%\d\d|\d|[()=#/\\:.\-]")
SMI_ATOM = re.compile(r"\[[^\]]*\]|Br|Cl|[BCNOPSFIbcnops]")


def smiles_atom_indices(s):
    """[(set of acceptable token indices, token text)] per atom, in order"""
    out = []
    lo = hi = 0          # lo: ring label with bond char counts 1 ; hi: counts 2
    toks = SMI_TOK.findall(s)
    i = 0
    while i < len(toks):
        t = toks[i]
        if t == ".":
            i += 1
            continue
        if t in "=#/\\:-" and i + 1 < len(toks) and (toks[i + 1].isdigit() or toks[i + 1].startswith("%")):
            hi += 1          # bond character belonging to a ring label
            i += 1
            continue
        if SMI_ATOM.fullmatch(t):
            out.append(({lo, hi}, t))
        lo += 1
        hi += 1
        i += 1
    return out


def check_encoder(smi, r):
    r.evaluations += 1
    r.transitions += 1
    use_table(RELAXED)
    try:
        plain = _SF.encoder(smi)
    except _SF.EncoderError:
        r.cov["encoder rejects"] += 1
        return None
    except Exception as e:
        r.cov["encoder escapes with %s (C09's business)" % type(e).__name__] += 1
        return None
    case = {"kind": "encoder", "smiles": smi}
    try:
        res = _SF.encoder(smi, attribute=True)
    except Exception as e:
        r.violation("encoder-raises-with-attribute:" + type(e).__name__, case, repr(e)[:200])
        return None
    if not (isinstance(res, tuple) and len(res) == 2):
        r.violation("bad-return-shape", case, repr(type(res)))
        return None
    x, am = res
    if x != plain:
        r.violation("attribute-changes-translation", case, "encoder(%r)=%r but with attribute=True %r" % (smi, plain, x))
        return None
    # the same clause next to the encoder's other flag
    try:
        loose = _SF.encoder(smi, strict=False)
        res2 = _SF.encoder(smi, strict=False, attribute=True)
    except Exception as e:
        r.violation("encoder-raises-with-attribute:" + type(e).__name__, case, "strict=False: " + repr(e)[:200])
        return None
    if not (isinstance(res2, tuple) and len(res2) == 2) or res2[0] != loose:
        r.violation("attribute-changes-translation:strict=False", case,
                    "encoder(%r, strict=False)=%r but with attribute=True %r" % (smi, loose, res2[0] if isinstance(res2, tuple) else res2))
        return None
    if loose == plain and _plain_map(res2[1]) != _plain_map(am):
        r.violation("attribution-depends-on-strict", case, "encoder(%r): same string, different attribution maps with strict=True / False" % (smi,))
        return None
    toks = misc.tokenize(x)
    m = refmodel.decode(toks, RELAXED)
    atoms_in = smiles_atom_indices(smi)
    if len(m.attr) != len(atoms_in):
        r.violation("encoder:atom-count", case, "%r -> %r: %d SMILES atoms, %d atom symbols" % (smi, x, len(atoms_in), len(m.attr)))
        return x
    for k, (idxs, text) in enumerate(atoms_in):
        sym = m.attr[k][-1][1]
        good = False
        for e in am:
            if e.token != sym or not e.attribution or len(e.attribution) != 1:
                continue
            a = e.attribution[0]
            if a.token == text and a.index in idxs:
                good = True
                break
        if not good:
            r.violation("encoder:atom-attribution", case,
                        "%r -> %r: atom %d (%r, token index %s) has no entry with token %r attributed to it; entries: %r" % (
                            smi, x, k, text, sorted(idxs), sym,
                            [(e.token, [(a.index, a.token) for a in (e.attribution or [])]) for e in am][:12]))
            return x
    # every entry's token must at least be a symbol of the output
    symset = set(toks)
    for e in am:
        if e.token not in symset:
            r.violation("encoder:entry-token-not-in-output", case, "%r -> %r: entry token %r" % (smi, x, e.token))
            return x
    r.validated += 1
    r.nontrivial.add(h64((x, tuple((e.token, tuple((a.index, a.token) for a in (e.attribution or []))) for e in am))))
    return x


def run(task):
    scope, arg = task
    r = Result()
    last = None
    if arg[0] == "dec":
        _, an, tn, L, sh = arg
        table = use_table(tn)
        for w in E1.nodes(ALPH[an], L, sh):
            out = check_decoder(w, table, r)
            if out is not None:
                last = ("".join(w), out)
        if last:
            r.sample({"scope": scope, "selfies": last[0], "decoder": last[1]}, 1)
    elif arg[0] == "fam":
        from mc.props import c01
        _, fi, lo, hi, tier = arg
        fname, table, members = c01.families(tier)[fi]
        t = use_table(table)
        for label, s_ in members[lo:hi]:
            w = tuple(misc.tokenize(s_))
            if len(w) > 1500:
                continue
            try:
                m = refmodel.decode(w, t)
                if sum(len(x) for x in m.ringnbrs) // 2 >= 100:
                    continue
            except refmodel.Reject:
                continue
            out = check_decoder(w, t, r)
            if out is not None:
                last = (label, out[:80])
        if last:
            r.sample({"scope": scope, "member": last[0], "decoder": last[1]}, 1)
            last = None
    elif arg[0] == "encchir":
        _, n, pi = arg
        par = list(E2.parent_vectors(n))[pi]
        for rings in E2.ring_sets(n, par, 2, 1):
            variants = [({}, set())] + list(E2.lenient_variants(n, par, rings, 1))
            for dp in E2.digit_orders(rings):
                r.states += 1
                for ds, pl in (variants if dp is None else variants[:1]):
                    for i in range(n):
                        for tag in ("[C@]", "[C@@H]"):
                            at = ["C"] * n
                            at[i] = tag
                            bt = [""] * n
                            smi = E2.write(n, par, rings, at, bt, digit_perm=dp, digit_slot=ds, paren_last=pl)
                            x = check_encoder(smi, r)
                            if i == 0:
                                bt2 = list(bt)
                                bt2[1] = "/"
                                check_encoder(E2.write(n, par, rings, at, bt2, digit_perm=dp, digit_slot=ds, paren_last=pl) + ".Br", r)
                            last = (smi, x)
        if last:
            r.sample({"scope": scope, "smiles": last[0], "encoder": last[1]}, 1)
    else:
        _, n, pi, rmax = arg
        par = list(E2.parent_vectors(n))[pi]
        for rings in E2.ring_sets(n, par, rmax):
            for dp in E2.digit_orders(rings):
                r.states += 1
                for a0 in ("C", "[O-]", "Cl"):
                    for b1 in (("", "=") if n > 1 else ("",)):
                        at = ["C"] * n
                        at[0] = a0
                        bt = [""] * n
                        if n > 1:
                            bt[1] = b1
                        smi = E2.write(n, par, rings, at, bt, digit_perm=dp)
                        x = check_encoder(smi, r)
                        check_encoder(smi + (".N1CC1" if n % 2 else ".N"), r)
                        last = (smi, x)
        if last:
            r.sample({"scope": scope, "smiles": last[0], "encoder": last[1]}, 1)
    return r


def replay(case):
    worker_init()
    r = Result()
    if case["kind"] == "decoder":
        _SF.set_semantic_constraints(dict(case["table"]))
        check_decoder(tuple(misc.tokenize(case["selfies"])), case["table"], r)
    else:
        check_encoder(case["smiles"], r)
    return [(sig, v[0]["detail"]) for sig, v in r.viol.items()]
