"""C05 - aromatic SMILES are kekulized correctly, or rejected, independent of atom order.

Seam 1 (matching routine): find_perfect_matching on *every* labelled graph with n <= 8 nodes, degrees 1..3, plus the
"chain + chords" family (Hamiltonian path + every set of <= 3/4 chords, n <= 12/16) - result must be None iff brute
force finds no perfect matching, else a symmetric fixed-point-free involution along edges.
Seam 2 (public API): every ring-bearing written form over lower-case palettes (G1), and named skeletons / cages in
all their DFS spellings (G2) - acceptance must equal the existence of a perfect matching on the atoms that need a
pi bond (O3), the decoded result must carry exactly one in-system double bond on each needing atom and none on
the others, with sigma skeleton, H and charges unchanged, and acceptance must not depend on the spelling.
"""
import itertools

from mc import enum_smiles as E2
from mc.oracles import kekule, roundtrip, smiread
from mc.runner import Result, h64

PROPERTY = "C05"
CURRENT = None        # last input handed to the implementation (reported if a shard hits the task watchdog)
RULE = ("seam 1: state = labelled graph (edge set), enumerated completely by backtracking over the edge list under the "
        "degree bounds; seam 2: state = written form / DFS spelling of an aromatic system; every state is evaluated on "
        "the implementation; non-trivial = distinct graphs with a perfect matching + distinct accepted SELFIES strings")
ASSUMPTIONS = [
    "O3 (mc/oracles/kekule.py): which atoms need a pi bond is the local OpenSMILES rule for the kinds C05 names "
    "(c, n, o, s, p, [nH], [cH], substituted n, [n+]); for other lower-case atoms only the consistency clauses are checked",
    "completeness (accept whenever an assignment exists) is only demanded when every lower-case atom lies on a ring of "
    "aromatic bonds and is of a standard kind",
    "two Kekule structures of the same system count as the same molecule",
    "seam 1 calls selfies.utils.matching_utils.find_perfect_matching directly (skipped with a cap note if a refactor "
    "removes it; seam 2 does not depend on internals)",
]

RELAXED = {"?": 12}
PAL_BASIC = ["c", "n", "o", "[nH]"]
PAL_MORE = ["c", "n", "s", "p", "[cH]", "[n+]", "[nH+]", "[n]", "[p]", "[15n]", "[n:1]"]

SKELETONS = {
    "benzene": "c1ccccc1", "pyridine": "c1ccncc1", "pyrrole": "c1cc[nH]c1", "furan": "c1ccoc1", "thiophene": "c1ccsc1",
    "imidazole": "c1cnc[nH]1", "N-methylpyrrole": "c1ccn(C)c1", "N-methylpyridinium": "c1cc[n+](C)cc1",
    "2-pyridone": "O=c1cccc[nH]1", "azulene": "c1ccc2cccc2cc1", "naphthalene": "c1ccc2ccccc2c1",
    "indole": "c1ccc2[nH]ccc2c1", "benzofuran": "c1ccc2occc2c1", "purine": "c1ncc2[nH]cnc2n1",
    "biphenylene": "c1ccc2c(c1)c1ccccc21", "pentalene": "c1cc2cccc2c1", "biphenyl": "c1ccccc1-c1ccccc1",
    "cyclobutadiene": "c1ccc1", "cyclooctatetraene": "c1ccccccc1", "cyclopentadienyl-5c": "c1cccc1",
    "cyclopropenyl-3c": "c1cc1", "cycloheptatrienyl-7c": "c1cccccc1", "toluene": "Cc1ccccc1", "quinoline": "c1ccc2ncccc2c1",
    "pyrene": "c1cc2ccc3cccc4ccc(c1)c2c34", "phenalene-like-13c": "c1cc2cccc3cccc(c1)c23",
    "thiazole": "c1cscn1", "pyrylium-like-o": "c1ccocc1",
    # explicit single bonds between aromatic atoms *inside* cycles (so they can become ring-closure bonds)
    "biphenylene-explicit-single": "c1ccc2c(c1)-c1ccccc1-2", "fluorene": "c1ccc2c(c1)Cc1ccccc1-2",
    "carbazole": "c1ccc2c(c1)[nH]c1ccccc1-2", "two-5-rings-single-linked": "c1ccc-2c1-c1cccc12",
    "5-7-single-linked": "c1ccc-2c1-c1cccccc12", "dibenzofuran": "c1ccc2c(c1)oc1ccccc1-2",
}


# ------------------------------------------------------------------ seam 1: graphs
def graphs_with_first(n, maxdeg, nb0, mindeg=1):
    """all labelled graphs on n nodes, mindeg <= degree <= maxdeg, in which node 0 has exactly neighbour set nb0"""
    edges = [(i, j) for i in range(1, n) for j in range(i + 1, n)]
    deg = [0] * n
    adj = [[] for _ in range(n)]
    for b in nb0:
        adj[0].append(b)
        adj[b].append(0)
        deg[0] += 1
        deg[b] += 1
    m = len(edges)
    # lastpos[v] = index of the last edge touching v (after which deg[v] is final)
    lastpos = [0] * n
    for k, (i, j) in enumerate(edges):
        lastpos[i] = k
        lastpos[j] = k

    def rec(k):
        if k == m:
            if min(deg) >= mindeg:
                yield adj
            return
        i, j = edges[k]
        # skip edge k
        if mindeg == 0 or not ((lastpos[i] == k and deg[i] == 0) or (lastpos[j] == k and deg[j] == 0)):
            yield from rec(k + 1)
        if deg[i] < maxdeg and deg[j] < maxdeg:
            adj[i].append(j)
            adj[j].append(i)
            deg[i] += 1
            deg[j] += 1
            yield from rec(k + 1)
            adj[i].pop()
            adj[j].pop()
            deg[i] -= 1
            deg[j] -= 1
    yield from rec(0)


def _fpm():
    try:
        import importlib
        return getattr(importlib.import_module("selfies.utils.matching_utils"), "find_perfect_matching", None)
    except Exception:
        return None


def check_graph(adj, r, fpm, rotations=False):
    n = len(adj)
    exp = kekule.has_perfect_matching(range(n), adj)
    variants = [[sorted(a) for a in adj]]
    if rotations:
        base = variants[0]
        variants.append([list(reversed(a)) for a in base])
        variants.append([a[1:] + a[:1] for a in base])
    for g in variants:
        r.evaluations += 1
        r.transitions += 1
        arg = [list(a) for a in g]
        global CURRENT
        CURRENT = ("find_perfect_matching", g)
        try:
            got = fpm(arg)
        except Exception as e:
            r.violation("matching:raises:" + type(e).__name__, {"kind": "graph", "adj": g}, repr(e))
            continue
        if arg != g:
            r.violation("matching:mutates-input", {"kind": "graph", "adj": g}, "input changed to %r" % (arg,))
        if exp:
            if got is None:
                r.violation("matching:misses-existing-matching", {"kind": "graph", "adj": g},
                            "a perfect matching exists but None was returned for %r" % (g,))
            elif not kekule.is_perfect_matching(got, g):
                r.violation("matching:returns-non-matching", {"kind": "graph", "adj": g},
                            "returned %r for %r, which is not a perfect matching" % (got, g))
            else:
                r.validated += 1
        else:
            if got is not None:
                r.violation("matching:invents-matching", {"kind": "graph", "adj": g},
                            "no perfect matching exists but %r was returned for %r" % (got, g))
            else:
                r.validated += 1
    if exp:
        r.nontrivial.add(h64(tuple(map(tuple, variants[0]))))
    return exp


# ------------------------------------------------------------------ seam 2: API
_SF = None
_CUR = [None]


def worker_init():
    global _SF
    import selfies
    _SF = selfies


def use(table):
    key = repr(table)
    if _CUR[0] != key:
        _SF.set_semantic_constraints(table if isinstance(table, str) else dict(table))
        _CUR[0] = key


def analyse(atoms):
    """-> (needing atom list or None if outside the completeness domain, aromatic adjacency, expected acceptance)"""
    n = len(atoms)
    bonds = smiread.bonds_of(atoms)
    aadj = {i: set() for i in range(n) if atoms[i].arom}
    bondsum = [0] * n
    for (i, j), o in bonds.items():
        if o == 1.5:
            aadj.setdefault(i, set()).add(j)
            aadj.setdefault(j, set()).add(i)
            bondsum[i] += 1
            bondsum[j] += 1
        else:
            bondsum[i] += o
            bondsum[j] += o
    standard = True
    need = []
    for i in aadj:
        if not atoms[i].arom and (atoms[i].bracket or atoms[i].elem not in ("C", "N", "O", "S", "P")):
            standard = False        # ':' bond on a bracket / non-aromatic-capable upper-case atom
            continue
        # an unbracketed upper-case C, N, O, S, P with explicit ':' bonds is the same atom as its lower-case spelling
        k = kekule.need_pi(atoms[i], bondsum[i])
        if k is None:
            standard = False
        elif k:
            need.append(i)
    # every aromatic atom must lie on a cycle of aromatic bonds for the completeness clause
    for i in aadj:
        if not _on_cycle(i, aadj):
            standard = False
    return need, aadj, standard


def _on_cycle(v, adj):
    for w in adj[v]:
        # path from w back to v avoiding edge (v,w)
        seen = {w}
        st = [w]
        while st:
            x = st.pop()
            for y in adj[x]:
                if x == w and y == v:
                    continue
                if y == v:
                    return True
                if y not in seen:
                    seen.add(y)
                    st.append(y)
    return False


def check_smiles(smi, r, tag=None):
    """returns 'accept' / 'reject' / None (outside domain)"""
    r.evaluations += 1
    r.transitions += 1
    try:
        atoms = smiread.read_smiles(smi, ring_across_dot=False)
    except smiread.SmiError as e:
        r.cov["generated form outside the reader's grammar"] += 1
        return None
    need, aadj, standard = analyse(atoms)
    case = {"kind": "smiles", "smiles": smi}
    if tag:
        case["family"] = tag
    use(RELAXED)
    global CURRENT
    CURRENT = ("encoder", smi)
    try:
        x = _SF.encoder(smi, strict=False)
        got = "accept"
    except _SF.EncoderError as e:
        got = "reject"      # input is valid for the independent reader and strict=False: only kekulization can fail
    except Exception as e:
        r.cov["encoder escapes with %s (C09's business)" % type(e).__name__] += 1
        return None
    ok = True
    if standard:
        nadj = {i: [j for j in aadj[i] if j in set(need)] for i in need}
        exp = kekule.has_perfect_matching(need, nadj)
        if exp and got == "reject":
            ok = False
            r.violation("rejects-kekulizable-system", case, "%r has an alternating assignment (needing atoms %r) but the "
                                                            "encoder raised 'kekulization failed'" % (smi, need))
        if not exp and got == "accept":
            ok = False
            r.violation("accepts-non-kekulizable-system", case, "%r has no alternating assignment (needing atoms %r) "
                                                                "but the encoder returned %r" % (smi, need, x))
    else:
        r.cov["outside completeness domain (consistency clauses only)"] += 1
    if got == "accept":
        try:
            y = _SF.decoder(x)
            aout = smiread.read_smiles(y)
        except Exception as e:
            r.violation("decode-fails", case, "%r -> %r: %r" % (smi, x, e))
            return got
        v = roundtrip.compare_skeleton(atoms, aout)
        if v:
            ok = False
            r.violation("skeleton-changed:" + v[0], case, "%r -> %r -> %r: %s" % (smi, x, y, v[1]))
        else:
            bo = smiread.bonds_of(aout)
            dbl = {i: 0 for i in aadj}
            for (i, j), o in bo.items():
                if i in aadj and j in aadj[i] and o == 2:
                    dbl[i] += 1
                    dbl[j] += 1
            for i in aadj:
                if dbl[i] > 1:
                    ok = False
                    r.violation("atom-with-two-ring-double-bonds", case, "%r -> %r: atom %d has %d double bonds inside "
                                                                         "the former aromatic system" % (smi, y, i, dbl[i]))
                    break
                if standard and dbl[i] != (1 if i in need else 0):
                    ok = False
                    r.violation("wrong-double-bond-placement", case,
                                "%r -> %r: atom %d (%s) has %d in-system double bonds, expected %d" % (
                                    smi, y, i, atoms[i].text, dbl[i], 1 if i in need else 0))
                    break
        # strict=True under a table every correct Kekule structure obeys must give the same string
        try:
            xs = _SF.encoder(smi, strict=True)
            if xs != x:
                ok = False
                r.violation("strict-differs", case, "%r: strict %r vs non-strict %r" % (smi, xs, x))
        except _SF.EncoderError as e:
            if standard:
                ok = False
                r.violation("strict-rejects-after-wrong-kekulization", case,
                            "%r: strict=True raised %s under a table with capacity 12 everywhere" % (smi, str(e).strip()[-80:]))
        r.nontrivial.add(h64(x))
    if ok:
        r.validated += 1
    return got if standard else None


def skeleton_graph(smi):
    atoms = smiread.read_smiles(smi)
    bonds = smiread.bonds_of(atoms)
    adj = [[] for _ in atoms]
    for (i, j) in sorted(bonds):
        adj[i].append(j)
        adj[j].append(i)
    return atoms, bonds, adj


def bond_symbol(atoms, bonds, u, v):
    o = bonds[(u, v) if u < v else (v, u)]
    both = atoms[u].arom and atoms[v].arom
    if o == 1.5:
        return "" if both else ":"
    if o == 1:
        return "-" if both else ""
    return {2: "=", 3: "#"}[o]


def spell(atoms, bonds, adj, order, parent, sym_at_close=False):
    par, rings = E2.spelling_from_traversal(adj, order, parent)
    n = len(order)
    at = [atoms[order[k]].text for k in range(n)]
    bt = [""] * n
    for k in range(1, n):
        bt[k] = bond_symbol(atoms, bonds, order[par[k]], order[k])
    rt = {}
    for (a, b) in rings:
        s = bond_symbol(atoms, bonds, order[a], order[b])
        if s:
            rt[(a, b)] = ("", s) if sym_at_close else (s, "")
    return E2.write(n, par, rings, at, bt, ring_tok=rt, scheme="reuse")


def policy_traversal(adj, start, policy):
    n = len(adj)
    order = [start]
    parent = {start: None}
    visited = {start}
    stack = [start]
    while stack:
        a = stack[-1]
        c = sorted(b for b in adj[a] if b not in visited)
        if not c:
            stack.pop()
            continue
        b = c[policy[min(len(c), len(policy)) - 1] % len(c)]
        visited.add(b)
        parent[b] = a
        order.append(b)
        stack.append(b)
    return order, parent


def lcf_graph(lcf, n):
    adj = [set() for _ in range(n)]
    for i in range(n):
        adj[i].add((i + 1) % n)
        adj[(i + 1) % n].add(i)
        j = (i + lcf[i % len(lcf)]) % n
        adj[i].add(j)
        adj[j].add(i)
    return [sorted(a) for a in adj]


def c60_graph():
    phi = (1 + 5 ** 0.5) / 2
    pts = set()
    for base in [(0, 1, 3 * phi), (1, 2 + phi, 2 * phi), (phi, 2, 2 * phi + 1)]:
        for signs in itertools.product((1, -1), repeat=3):
            v = tuple(s * x for s, x in zip(signs, base))
            for p in ((v[0], v[1], v[2]), (v[1], v[2], v[0]), (v[2], v[0], v[1])):
                pts.add(tuple(round(x, 6) for x in p))
    pts = sorted(pts)
    assert len(pts) == 60
    d2 = lambda p, q: sum((a - b) ** 2 for a, b in zip(p, q))
    adj = [[j for j in range(60) if j != i and abs(d2(pts[i], pts[j]) - 4) < 1e-3] for i in range(60)]
    assert all(len(a) == 3 for a in adj)
    return adj


CAGES = {"C20-dodecahedron": lambda: lcf_graph([10, 7, 4, -4, -7, 10, -4, 7, -7, 4], 20),
         "C24-truncated-octahedron": lambda: lcf_graph([3, -7, 7, -3], 24),
         "C60-buckminsterfullerene": c60_graph}
POLICIES = [(0, c2, c3) for c3 in range(3) for c2 in range(2)]


# ------------------------------------------------------------------ plan / run
# hetero atoms with three or four aromatic bonds (spiro centres of two aromatic-notation rings, fusion atoms)
HETERO_EXTRA = ["c1cs2(cc1)cccc2", "s12(cccc1)cccc2", "Cp12(cccc1)cccc2", "c1ccc2c(c1)s1(cccc1)cc2", "c1cc2cccn2c1", "c1ccn2cccc2c1"]


def plan(tier, seed):
    thorough = tier == "thorough"
    scopes, tasks = [], []
    scopes.append({"name": "matching/all-graphs-n<=8", "n": "2..8", "degree": "1..3",
                   "adjacency_orders": "ascending" + (" + reversed + rotated" if thorough else ""),
                   "desc": "every labelled graph; find_perfect_matching vs brute force"})
    for n in range(2, 9):
        others = list(range(1, n))
        for k in (1, 2, 3):
            for nb0 in itertools.combinations(others, k):
                tasks.append(("matching/all-graphs-n<=8", ("graphs", n, nb0, thorough)))
    ni = 7 if thorough else 6
    scopes.append({"name": "matching/with-isolated-nodes", "n": "1..%d" % ni, "degree": "0..3",
                   "desc": "every labelled graph incl. nodes without edges (an aromatic atom that needs a pi bond but has no "
                           "needing neighbour): result must be None"})
    for n in range(1, ni + 1):
        others = list(range(1, n))
        for k in (0, 1, 2, 3):
            for nb0 in itertools.combinations(others, k):
                tasks.append(("matching/with-isolated-nodes", ("graphs0", n, nb0)))
    nc, kc = (16, 4) if thorough else (12, 4)
    scopes.append({"name": "matching/chain+chords", "n": "4..%d (even)" % nc, "chords": "every set of <= %d" % kc,
                   "degree": "<= 3"})
    for n in range(4, nc + 1, 2):
        for first in range(0, n - 2):
            tasks.append(("matching/chain+chords", ("chords", n, first, kc)))
    if thorough:
        scopes.append({"name": "matching/odd-n9", "n": 9, "edges": "<= 11", "desc": "odd order: must always return None"})
        for nb0 in itertools.combinations(range(1, 9), 1):
            tasks.append(("matching/odd-n9", ("graphs9", nb0)))
    na, ra = (7, 3) if thorough else (6, 2)
    scopes.append({"name": "api/ring-forms-basic", "n_max": na, "r_max": ra, "palette": PAL_BASIC,
                   "desc": "every written form in which every atom lies on a cycle, degree <= 3, every atom from the palette"})
    for n in range(3, na + 1):
        for pi, _ in enumerate(E2.parent_vectors(n)):
            tasks.append(("api/ring-forms-basic", ("forms", n, pi, ra, "basic")))
    nm = 6 if thorough else 5
    scopes.append({"name": "api/ring-forms-more", "n_max": nm, "r_max": 2, "palette": PAL_MORE,
                   "desc": "at least one and at most %d atoms outside {c, n} per system" % (3 if thorough else 2)})
    for n in range(3, nm + 1):
        for pi, _ in enumerate(E2.parent_vectors(n)):
            tasks.append(("api/ring-forms-more", ("forms", n, pi, 2, "more" if thorough else "more-quick")))
    ns = 7 if thorough else 6
    scopes.append({"name": "api/substituted", "n_max": ns, "r_max": 2,
                   "desc": "written forms with ring atoms from {c,n} and non-ring atoms spelled C (single), =O (on c) - covers "
                           "substituted n, exocyclic c(=O)"})
    for n in range(4, ns + 1):
        for pi, _ in enumerate(E2.parent_vectors(n)):
            tasks.append(("api/substituted", ("subst", n, pi)))
    scopes.append({"name": "api/all-carbon-8", "n": 8, "r": 3, "desc": "every all-'c' written form with 8 atoms, 3 ring bonds, "
                                                                       "degree <= 3 (non-bipartite systems)"})
    for pi, _ in enumerate(E2.parent_vectors(8)):
        tasks.append(("api/all-carbon-8", ("carbon8", pi)))
    scopes.append({"name": "api/skeletons-all-spellings", "skeletons": sorted(SKELETONS),
                   "desc": "G2: every DFS spelling (every start atom x every neighbour order; explicit ring-bond symbols once on the "
                           "opening and once on the closing digit) of each skeleton; at most "
                           "4000 per skeleton, above that the 6-policy family from every start atom"})
    for name in sorted(SKELETONS):
        tasks.append(("api/skeletons-all-spellings", ("skel", name)))
    scopes.append({"name": "api/cages", "cages": sorted(CAGES), "desc": "DFS from each atom x 6 neighbour-order policies"})
    for name in sorted(CAGES):
        nn = {"C20": 20, "C24": 24, "C60": 60}[name[:3]]
        for s0 in range(0, nn, 10):
            tasks.append(("api/cages", ("cage", name, s0, min(nn, s0 + 10))))
    from mc.props import c06 as _c06
    scopes.append({"name": "hetero-skeletons", "skeletons": _c06.AROM + HETERO_EXTRA, "substituents": ["", "C", "F", "=O", "O"],
                   "desc": "named hetero-aromatic skeletons incl. hetero atoms saturated in a higher valence state (s(=O), p(=O)(C), "
                           "n(C), [n+]) with one substituent at every position, alone and as second fragment"})
    for k in range(len(_c06.AROM) + len(HETERO_EXTRA)):
        tasks.append(("hetero-skeletons", ("hetero", k)))
    return {"scopes": scopes, "tasks": tasks, "bounds": {"graphs_n": 8, "chain_chords": [nc, kc], "ring_forms": [na, ra]},
            "weight": lambda t: (5 if t[1][0] in ("carbon8", "cage") else (t[1][1] if t[1][0] in ("graphs", "forms", "subst") else 1))}


def all_on_cycle(n, par, rings):
    adj = {i: set() for i in range(n)}
    for i in range(1, n):
        adj[i].add(par[i])
        adj[par[i]].add(i)
    for a, b in rings:
        adj[a].add(b)
        adj[b].add(a)
    return all(_on_cycle(i, adj) for i in range(n)), adj


def run(task):
    scope, arg = task
    r = Result()
    kind = arg[0]
    last = None
    if kind in ("graphs", "chords", "graphs9", "graphs0"):
        fpm = _fpm()
        if fpm is None:
            r.caps.append("selfies.utils.matching_utils.find_perfect_matching not found (seam 1 skipped)")
            return r
        if kind == "graphs":
            _, n, nb0, rot = arg
            for adj in graphs_with_first(n, 3, nb0):
                r.states += 1
                check_graph(adj, r, fpm, rot)
            r.sample({"scope": scope, "n": n, "neighbours_of_node_0": list(nb0)}, 1)
        elif kind == "graphs0":
            _, n, nb0 = arg
            for adj in graphs_with_first(n, 3, nb0, mindeg=0):
                if n > 1 and min(map(len, adj)) > 0:
                    continue            # already covered by the degree >= 1 scope
                r.states += 1
                check_graph(adj, r, fpm, False)
        elif kind == "graphs9":
            _, nb0 = arg
            for adj in graphs_with_first(9, 3, nb0):
                if sum(map(len, adj)) // 2 > 11:
                    continue
                r.states += 1
                check_graph(adj, r, fpm, False)
        else:
            _, n, first, kc = arg
            chain = [(i, i + 1) for i in range(n - 1)]
            chords = [(a, b) for a in range(n) for b in range(a + 2, n)]
            mine = [c for c in chords if c[0] == first]
            later = [c for c in chords if c[0] > first]
            for c0 in mine:
                for k in range(0, kc):
                    for rest in itertools.combinations(later, k):
                        es = chain + [c0] + list(rest)
                        adj = [[] for _ in range(n)]
                        for a, b in es:
                            adj[a].append(b)
                            adj[b].append(a)
                        if max(map(len, adj)) > 3:
                            continue
                        r.states += 1
                        check_graph(adj, r, fpm, False)
            r.sample({"scope": scope, "n": n, "first_chord_from": first}, 1)
        return r
    if kind == "hetero":
        from mc.props import c06 as _c06
        skel = (_c06.AROM + HETERO_EXTRA)[arg[1]]
        for smi in sorted(_c06.aromatic_variants(skel)):
            r.states += 1
            last = (smi, check_smiles(smi, r))
            check_smiles("c1ccccc1." + smi, r)
    if kind == "forms":
        _, n, pi, rmax, palname = arg
        pal = PAL_BASIC if palname == "basic" else PAL_MORE
        max_unusual = 3 if palname == "more" else 2
        if palname == "more-quick":
            palname = "more"
        par = list(E2.parent_vectors(n))[pi]
        for rings in E2.ring_sets(n, par, rmax, 1):
            okc, adj = all_on_cycle(n, par, rings)
            if not okc or max(len(adj[i]) for i in adj) > 3:
                continue
            r.states += 1
            deg = [len(adj[i]) for i in range(n)]
            for toks in itertools.product(pal, repeat=n):
                if palname == "more" and all(t in ("c", "n") for t in toks):
                    continue
                if palname == "more" and sum(1 for t in toks if t not in ("c", "n")) > max_unusual:
                    continue        # at most three "unusual" atoms per system keeps the scope tractable
                if any((t in ("o", "s", "[nH]", "[cH]", "[nH+]", "[n]", "[p]", "[15n]", "[n:1]") and deg[i] != 2) for i, t in enumerate(toks)):
                    continue
                smi = E2.write(n, par, rings, list(toks), [""] * n)
                last = (smi, check_smiles(smi, r))
                if palname == "basic" and n <= 5:
                    # the same system as second / first fragment and next to a copy of itself (fragments are kekulized one by one)
                    check_smiles("c1ccccc1." + smi, r)
                    check_smiles(smi + ".c1cc[nH]c1", r)
                    check_smiles(smi + "." + smi, r)
                    check_smiles("C.[Na+]." + smi + ".O", r)
    elif kind == "subst":
        _, n, pi = arg
        par = list(E2.parent_vectors(n))[pi]
        for rings in E2.ring_sets(n, par, 2, 1):
            adj = {i: set() for i in range(n)}
            for i in range(1, n):
                adj[i].add(par[i])
                adj[par[i]].add(i)
            for a, b in rings:
                adj[a].add(b)
                adj[b].add(a)
            cyc = [_on_cycle(i, adj) for i in range(n)]
            if all(cyc) or max(len(adj[i]) for i in adj) > 3:
                continue
            # non-ring atoms must be leaves attached to ring atoms (substituents)
            if any((not cyc[i]) and not (len(adj[i]) == 1 and cyc[next(iter(adj[i]))]) for i in range(n)):
                continue
            r.states += 1
            ring_atoms = [i for i in range(n) if cyc[i]]
            subs = [i for i in range(n) if not cyc[i]]
            for toks in itertools.product(["c", "n"], repeat=len(ring_atoms)):
                for stoks in itertools.product(["C", "=O"], repeat=len(subs)):
                    at = [None] * n
                    bt = [""] * n
                    for i, t in zip(ring_atoms, toks):
                        at[i] = t
                    skip = False
                    for i, t in zip(subs, stoks):
                        if i == 0:
                            skip = True       # substituent written first: the bond symbol belongs to the ring atom
                            break
                        at[i] = t.lstrip("=")
                        bt[i] = "=" if t.startswith("=") else ""
                        if t == "=O" and at[par[i]] != "c":
                            skip = True
                    if skip:
                        continue
                    smi = E2.write(n, par, rings, at, bt)
                    last = (smi, check_smiles(smi, r))
    elif kind == "carbon8":
        _, pi = arg
        n = 8
        par = list(E2.parent_vectors(n))[pi]
        for rings in E2.ring_sets(n, par, 3, 3):
            okc, adj = all_on_cycle(n, par, rings)
            if max(len(adj[i]) for i in adj) > 3:
                continue
            r.states += 1
            smi = E2.write(n, par, rings, ["c"] * n, [""] * n)
            last = (smi, check_smiles(smi, r))
    elif kind == "skel":
        name = arg[1]
        atoms, bonds, adj = skeleton_graph(SKELETONS[name])
        spellings = []
        capped = False
        for start in range(len(atoms)):
            for order, parent in E2.g2(adj, start):
                spellings.append(spell(atoms, bonds, adj, order, parent))
                spellings.append(spell(atoms, bonds, adj, order, parent, sym_at_close=True))
                if len(spellings) > 4000:
                    capped = True
                    break
            if capped:
                break
        # the same systems with one atom written upper-case and its aromatic bonds spelled with ':' (every such atom,
        # every start atom, first neighbour order)
        if len(atoms) <= 10:
            import copy
            for k, a in enumerate(atoms):
                if not a.arom or a.bracket:
                    continue
                atoms2 = [copy.copy(x) for x in atoms]
                atoms2[k].arom = False
                atoms2[k].text = a.text.upper()
                for start in range(len(atoms)):
                    for pol in POLICIES[:2]:
                        order, parent = policy_traversal(adj, start, pol)
                        spellings.append(spell(atoms2, bonds, adj, order, parent))
                        spellings.append(spell(atoms2, bonds, adj, order, parent, sym_at_close=True))
        if capped:
            spellings = []
            for start in range(len(atoms)):
                for pol in POLICIES:
                    order, parent = policy_traversal(adj, start, pol)
                    spellings.append(spell(atoms, bonds, adj, order, parent))
                    spellings.append(spell(atoms, bonds, adj, order, parent, sym_at_close=True))
            r.cov["skeleton %s: > 4000 DFS spellings, 6-policy family used instead" % name] += 1
        verdicts = {}
        for smi in sorted(set(spellings)):
            r.states += 1
            v = check_smiles(smi, r, tag=name)
            verdicts.setdefault(v, smi)
            last = (smi, v)
        vs = {k: v for k, v in verdicts.items() if k is not None}
        if len(vs) > 1:
            r.violation("acceptance-depends-on-atom-order", {"kind": "skeleton", "name": name, "examples": vs},
                        "skeleton %s: accepted as %r but rejected as %r" % (name, vs.get("accept"), vs.get("reject")))
        r.extra["max_spellings_per_skeleton"] = len(set(spellings))
    elif kind == "cage":
        _, name, lo, hi = arg
        adj = CAGES[name]()
        n = len(adj)
        atoms = [smiread.read_atom("c") for _ in range(n)]
        bonds = {}
        for i in range(n):
            for j in adj[i]:
                if i < j:
                    bonds[(i, j)] = 1.5
        for start in range(lo, hi):
            for pol in POLICIES:
                order, parent = policy_traversal(adj, start, pol)
                smi = spell(atoms, bonds, adj, order, parent)
                r.states += 1
                v = check_smiles(smi, r, tag=name)
                if v == "reject":
                    pass    # already reported by check_smiles (cages have perfect matchings)
                last = (smi[:60] + "...", v)
    if last:
        r.sample({"scope": scope, "smiles": last[0], "verdict": last[1]}, 1)
    return r


def replay(case):
    worker_init()
    r = Result()
    if case["kind"] == "graph":
        check_graph([list(a) for a in case["adj"]], r, _fpm(), False)
    elif case["kind"] == "smiles":
        check_smiles(case["smiles"], r)
    else:
        for k, smi in case["examples"].items():
            check_smiles(smi, r)
        return [("acceptance-depends-on-atom-order", "re-run ./check C05 --scope api/skeletons-all-spellings")] + \
               [(sig, v[0]["detail"]) for sig, v in r.viol.items()]
    return [(sig, v[0]["detail"]) for sig, v in r.viol.items()]
