"""C06 - strict encoding rejects exactly the constraint-violating molecules.

Complete "star" and "dumbbell" families: a centre (or two bonded centres) from a palette of plain, charged,
explicit-H and '?'-default atoms with every multiset of substituent bond orders around each capacity (at, below,
above), plus every all-carbon written form (degree > 4 violates the default table); each molecule is encoded under
every table of the family *in turn* (so the table changes between calls on the same atom kinds).
Oracle: independent bond-order sum + explicit H per atom from the independent reader versus the table returned by
get_semantic_constraints().
"""
import itertools

from mc import enum_smiles as E2
from mc import tables
from mc.oracles import misc, roundtrip, smiread
from mc.runner import Result, h64

PROPERTY = "C06"
RULE = ("state = (molecule written form, table); every molecule of the complete families is encoded with strict=True "
        "and strict=False under every table of the family, tables switched between consecutive calls; non-trivial = "
        "distinct (table, molecule) pairs on which strict=True raised the constraint error, plus distinct accepted SELFIES")
ASSUMPTIONS = [
    "an atom violates when bond-order sum + explicit H > table[E | E+n | E-n] else table['?'] (independent key builder)",
    "all enumerated molecules are non-aromatic and syntactically valid for the independent reader, so every "
    "EncoderError must be the constraint error",
    "capacities are read back through get_semantic_constraints() after each set (C12 checks that getter = setter)",
]

CENTRES = ["C", "N", "O", "F", "S", "P", "B", "Cl", "[C+]", "[C-]", "[N+]", "[O-]", "[NH2]", "[CH3]", "[Fe]", "[Fe+2]",
           "[Xe]", "[H]", "[S-]", "[13C]", "[NH4+]", "[CH4]"]
PAIR = ["C", "N", "O", "S", "[N+]", "[CH2]", "[Fe]", "[O-]"]
SUB = {1: "F", 2: "=O", 3: "#N"}
# order matters: consecutive tables include a strict sub-table (keys dropped), a super-table and a one-value change
TABLES = ["default", "default-sub", "default-sub+Fe", "octet_rule", "hypervalent", "zero", "mix", "mix-sub", "big", "t8", "t8-mod"]
_DEF = {"H": 1, "F": 1, "Cl": 1, "Br": 1, "I": 1, "B": 3, "B+1": 2, "B-1": 4, "O": 2, "O+1": 3, "O-1": 1, "N": 3, "N+1": 4,
        "N-1": 2, "C": 4, "C+1": 3, "C-1": 3, "P": 5, "P+1": 4, "P-1": 6, "S": 6, "S+1": 5, "S-1": 5, "?": 8}
EXTRA_TABLES = {"t8": {"C": 5, "N": 4, "O": 3, "F": 2, "S": 1, "N+1": 0, "Fe": 3, "?": 1},
                "t8-mod": {"C": 5, "N": 4, "O": 3, "F": 2, "S": 1, "N+1": 2, "Fe": 3, "?": 1},
                "default-sub": {k: v for k, v in _DEF.items() if k not in ("S", "S-1", "N+1", "O-1", "C+1", "F", "H")},
                "default-sub+Fe": dict({k: v for k, v in _DEF.items() if k not in ("S", "S-1", "N+1", "O-1", "C+1", "F", "H")}, Fe=2),
                "mix-sub": {"C": 4, "O": 1, "?": 2}}


AROM = ["c1ccccc1", "c1ccncc1", "c1cc[nH]c1", "c1ccoc1", "c1ccsc1", "c1ccc2ccccc2c1", "c1ccc2[nH]ccc2c1", "c1cnc[nH]1",
        "c1ccn(C)c1", "O=c1cccc[nH]1", "c1cc[n+](C)cc1", "c1ccpcc1", "c1cc[se]c1", "c1ccs(=O)c1", "c1ccp(=O)(C)cc1"]
ARO_TABLES = {"default": "default", "octet_rule": "octet_rule",
              "arene-tight": {"C": 3, "N": 3, "O": 2, "S": 2, "F": 1, "N+1": 4, "?": 4},
              "N2": {"C": 4, "N": 2, "O": 2, "S": 2, "F": 1, "N+1": 3, "?": 4},
              "C2": {"C": 2, "N": 3, "O": 1, "S": 6, "F": 1, "N+1": 4, "?": 4}}


def aromatic_variants(base):
    """the skeleton and every form with one substituent (C, F, =O, O) written as a branch at any position the reader accepts"""
    atoms = smiread.read_smiles(base)
    variants = {base}
    for sub in ("C", "F", "=O", "O"):
        for pos in range(len(base) + 1):
            cand = base[:pos] + "(" + sub + ")" + base[pos:]
            try:
                a2 = smiread.read_smiles(cand)
            except smiread.SmiError:
                continue
            if len(a2) == len(atoms) + 1:
                variants.add(cand)
    return variants


def multisets(max_total, max_items=99):
    out = []
    for n3 in range(0, max_total // 3 + 1):
        for n2 in range(0, (max_total - 3 * n3) // 2 + 1):
            for n1 in range(0, max_total - 3 * n3 - 2 * n2 + 1):
                if n1 + n2 + n3 <= max_items:
                    out.append((n1, n2, n3))
    return out


def star(centre, ms, lead=None):
    n1, n2, n3 = ms
    subs = [SUB[1]] * n1 + [SUB[2]] * n2 + [SUB[3]] * n3
    s = centre
    if lead:
        s = lead + s
    for x in subs[:-1]:
        s += "(" + x + ")"
    if subs:
        s += subs[-1]
    return s


def plan(tier, seed):
    thorough = tier == "thorough"
    scopes, tasks = [], []
    scopes.append({"name": "star", "centres": CENTRES, "substituent_orders": "every multiset with total <= 14",
                   "tables": TABLES, "multisets": len(multisets(14))})
    for ci in range(len(CENTRES)):
        tasks.append(("star", ("star", ci)))
    els = sorted(misc.ELEMENTS)
    scopes.append({"name": "every-element", "elements": len(els), "centre_forms": ["[X]", "[X+]", "[X-]", "[XH]", "[XH2-]"],
                   "substituent_orders": "every multiset with total <= 9", "tables": TABLES,
                   "desc": "the capacity lookup (listed element, listed charged key, '?' fallback) for every element"})
    for k in range(0, len(els), 4):
        tasks.append(("every-element", ("elements", els[k:k + 4])))
    nc = 6 if thorough else 5
    scopes.append({"name": "chiral-ring-centres", "n_max": nc, "r_max": 2, "tags": ["[C@]", "[C@@H]", "[N@]", "[S@@]"],
                   "desc": "every tree shape x ring set x ring-digit order with one tagged centre at every position (the encoder "
                           "touches these atoms a second time, to invert the tag): the strict verdict must not depend on it",
                   "tables": TABLES})
    for n in range(3, nc + 1):
        for pi, _ in enumerate(E2.parent_vectors(n)):
            tasks.append(("chiral-ring-centres", ("chiral", n, pi)))
    nr = 5 if thorough else 4
    scopes.append({"name": "ring-bonds-with-orders", "n_max": nr, "ring_orders": ["", "=", "#"], "edge_orders": ["", "="],
                   "desc": "one or two ring bonds written with a bond symbol on the ring digit (the parser builds these through its "
                           "own path), every digit order, under every table: the strict verdict and the table-independence of "
                           "strict=False apply to them like to any other bond", "tables": TABLES})
    for n in range(3, nr + 1):
        for pi, _ in enumerate(E2.parent_vectors(n)):
            tasks.append(("ring-bonds-with-orders", ("ringorders", n, pi)))
    scopes.append({"name": "dumbbell", "centres": PAIR, "centre_bond": ["-", "=", "#"],
                   "substituents": "every multiset of <= %d substituents on each side" % (4 if thorough else 3),
                   "tables": TABLES})
    for a in range(len(PAIR)):
        for b in range(len(PAIR)):
            tasks.append(("dumbbell", ("pair", a, b, 4 if thorough else 3)))
    nt, rt = (7, 3) if thorough else (6, 2)
    scopes.append({"name": "carbon-forms", "n_max": nt, "r_max": rt, "tables": TABLES,
                   "desc": "every all-carbon written form (fresh labels); violates the default table iff some degree > 4"})
    for n in range(1, nt + 1):
        for pi, _ in enumerate(E2.parent_vectors(n)):
            tasks.append(("carbon-forms", ("forms", n, pi, rt)))
    scopes.append({"name": "aromatic", "skeletons": AROM, "substituents": ["", "C", "F", "=O (on c only)", "O"],
                   "tables": ARO_TABLES,
                   "desc": "aromatic skeletons with one substituent at every ring position; expected per-atom bond-order sum after "
                           "kekulization = sigma bonds + 1 for every atom that needs a pi bond (O3), so the verdict does not depend on "
                           "which Kekule structure is chosen"})
    for k in range(len(AROM)):
        tasks.append(("aromatic", ("arom", k)))
    return {"scopes": scopes, "tasks": tasks, "bounds": {"max_total_order": 14}}


_SF = None


def worker_init():
    global _SF
    import selfies
    _SF = selfies


def install(tn):
    if tn in EXTRA_TABLES:
        _SF.set_semantic_constraints(dict(EXTRA_TABLES[tn]))
        return _SF.get_semantic_constraints()
    if tn in tables.CUSTOM or tn in tables.PRESET_NAMES:
        return tables.set_table(_SF, tn)
    raise KeyError(tn)


def check(smi, r):
    try:
        atoms = smiread.read_smiles(smi)
    except smiread.SmiError as e:
        raise RuntimeError("HARNESS: generator produced %r which the reader rejects: %s" % (smi, e))
    sums = smiread.bond_sums(atoms)
    r.states += 1
    loose = {}
    ok = True
    for tn in TABLES:
        table = install(tn)
        over = [(i, a.text, sums[i] + (a.h or 0), misc.capacity(table, a.elem, a.charge)) for i, a in enumerate(atoms)
                if sums[i] + (a.h or 0) > misc.capacity(table, a.elem, a.charge)]
        case = {"smiles": smi, "table_name": tn, "table": dict(table)}
        r.evaluations += 2
        r.transitions += 2
        # strict
        try:
            x = _SF.encoder(smi, strict=True)
            got = "ok"
        except _SF.EncoderError as e:
            got = "raised"      # every enumerated molecule is valid and non-aromatic: the only legitimate reason is the table
            x = None
        except Exception as e:
            got = "escaped:" + type(e).__name__
            x = None
        if over and got == "ok":
            ok = False
            r.violation("strict-accepts-violating-molecule", case,
                        "encoder(%r, strict=True) returned %r although atom(s) %r exceed capacity" % (smi, x, over[:3]))
        elif not over and got != "ok":
            ok = False
            r.violation("strict-rejects-valid-molecule:" + got, case,
                        "encoder(%r, strict=True) raised (%s) although no atom exceeds its capacity under %r" % (smi, got, tn))
        elif over and got != "raised":
            ok = False
            r.violation("strict-wrong-error:" + got, case, "encoder(%r, strict=True): %s" % (smi, got))
        elif over:
            r.nontrivial.add(h64((tn, smi)))
        if got == "ok":
            r.nontrivial.add(h64(x))
            # accepted => decodes back to the same molecule under this table (no silent change)
            try:
                y = _SF.decoder(x)
                v = roundtrip.compare_skeleton(atoms, smiread.read_smiles(y))
            except Exception as e:
                v = ("decode-fails", repr(e))
            if v:
                ok = False
                r.violation("strict-accepted-but-molecule-changed:" + v[0], case, "%r -> %r -> %r: %s" % (smi, x, y, v[1]))
        # non-strict
        try:
            xl = _SF.encoder(smi, strict=False)
        except Exception as e:
            ok = False
            r.violation("nonstrict-raises:" + type(e).__name__, case, "encoder(%r, strict=False): %s" % (smi, str(e).strip()[:100]))
            xl = None
        loose[tn] = xl
        if got == "ok" and xl is not None and xl != x:
            ok = False
            r.violation("strict-and-nonstrict-differ", case, "%r: strict %r, non-strict %r" % (smi, x, xl))
    if len(set(loose.values())) > 1:
        ok = False
        r.violation("nonstrict-depends-on-table", {"smiles": smi, "table_name": None},
                    "encoder(%r, strict=False) differs across tables: %r" % (smi, loose))
    if ok:
        r.validated += 1
    return loose.get("default")


def check_aromatic(smi, r):
    from mc.oracles import kekule
    try:
        atoms = smiread.read_smiles(smi)
    except smiread.SmiError:
        return None
    bonds = smiread.bonds_of(atoms)
    bsum = [0] * len(atoms)
    for (i, j), o in bonds.items():
        bsum[i] += 1 if o == 1.5 else o
        bsum[j] += 1 if o == 1.5 else o
    total = []
    for i, a in enumerate(atoms):
        extra = 0
        if a.arom:
            k = kekule.need_pi(a, bsum[i])
            if k is None:
                return None
            extra = 1 if k else 0
        total.append(bsum[i] + extra + (a.h or 0))
    # C06 speaks about kekulizable molecules: an alternating assignment must exist (O3)
    from mc.props import c05
    need, aadj, standard = c05.analyse(atoms)
    if not standard:
        return None
    nset = set(need)
    if not kekule.has_perfect_matching(need, {i: [j for j in aadj[i] if j in nset] for i in need}):
        r.cov["aromatic variant without an alternating assignment (outside C06's domain)"] += 1
        return None
    r.states += 1
    ok = True
    loose = {}
    for tn, spec in ARO_TABLES.items():
        _SF.set_semantic_constraints(spec if isinstance(spec, str) else dict(spec))
        table = _SF.get_semantic_constraints()
        over = [(i, a.text, total[i], misc.capacity(table, a.elem, a.charge)) for i, a in enumerate(atoms)
                if total[i] > misc.capacity(table, a.elem, a.charge)]
        r.evaluations += 2
        r.transitions += 2
        case = {"smiles": smi, "table_name": tn, "table": dict(table), "aromatic": True}
        try:
            x = _SF.encoder(smi, strict=True)
            got = "ok"
        except _SF.EncoderError:
            got, x = "raised", None
        except Exception as e:
            got, x = "escaped:" + type(e).__name__, None
        if over and got == "ok":
            ok = False
            r.violation("strict-accepts-violating-molecule:aromatic", case, "encoder(%r, strict=True) returned %r although %r "
                                                                            "exceed capacity after kekulization" % (smi, x, over[:3]))
        elif not over and got != "ok":
            ok = False
            r.violation("strict-rejects-valid-molecule:aromatic:" + got, case, "encoder(%r, strict=True) %s although no atom "
                                                                              "exceeds its capacity under %s" % (smi, got, tn))
        elif over:
            r.nontrivial.add(h64((tn, smi)))
        try:
            xl = _SF.encoder(smi, strict=False)
            if got == "ok" and xl != x:
                ok = False
                r.violation("strict-and-nonstrict-differ", case, "%r: %r vs %r" % (smi, x, xl))
            r.nontrivial.add(h64(xl))
        except Exception as e:
            ok = False
            xl = "raises " + type(e).__name__
            r.violation("nonstrict-raises:" + type(e).__name__, case, "encoder(%r, strict=False)" % smi)
        loose[tn] = xl
    if len(set(loose.values())) > 1:
        ok = False
        r.violation("nonstrict-depends-on-table:aromatic", {"smiles": smi, "table_name": None, "aromatic": True},
                    "encoder(%r, strict=False) differs across tables: %r" % (smi, loose))
    if ok:
        r.validated += 1
    return total


def run(task):
    scope, arg = task
    r = Result()
    last = None
    if arg[0] == "arom":
        variants = aromatic_variants(AROM[arg[1]])
        for smi in sorted(variants):
            last = (smi, check_aromatic(smi, r))
        if last:
            r.sample({"scope": scope, "smiles": last[0], "expected_bond_order_sums": last[1]}, 1)
        return r
    if arg[0] == "star":
        c = CENTRES[arg[1]]
        for ms in multisets(14):
            last = (star(c, ms), None)
            last = (last[0], check(last[0], r))
            if sum(ms) <= 3:
                s2 = star(c, ms, lead="C")      # centre with an incoming chain bond
                check(s2, r)
            if sum(ms) <= 6:
                check(star(c, ms, lead="CC.[Na+]."), r)      # the centre in the third fragment
    elif arg[0] == "elements":
        for el in arg[1]:
            for form in ("[%s]", "[%s+]", "[%s-]", "[%sH]", "[%sH2-]"):
                for ms in multisets(9):
                    last = (star(form % el, ms), None)
                    last = (last[0], check(last[0], r))
    elif arg[0] == "ringorders":
        _, n, pi = arg
        par = list(E2.parent_vectors(n))[pi]
        at = ["C"] * (n - 1) + ["N"]
        for rings in E2.ring_sets(n, par, 2, 1):
            for dp in E2.digit_orders(rings):
                for ro in itertools.product(["", "=", "#"], repeat=len(rings)):
                    for bts in itertools.product(["", "="], repeat=n - 1):
                        rt = {rg: (o, "") for rg, o in zip(rings, ro)}
                        smi = E2.write(n, par, rings, at, [""] + list(bts), ring_tok=rt, digit_perm=dp)
                        try:
                            smiread.read_smiles(smi)
                        except smiread.SmiError:
                            continue
                        last = (smi, check(smi, r))
    elif arg[0] == "chiral":
        _, n, pi = arg
        par = list(E2.parent_vectors(n))[pi]
        bt = [""] * n
        for rings in E2.ring_sets(n, par, 2, 1):
            for dp in E2.digit_orders(rings):
                for i in range(n):
                    for tag in ("[C@]", "[C@@H]", "[N@]", "[S@@]"):
                        at = ["C"] * n
                        at[i] = tag
                        smi = E2.write(n, par, rings, at, bt, digit_perm=dp)
                        try:
                            smiread.read_smiles(smi)
                        except smiread.SmiError:
                            continue
                        last = (smi, check(smi, r))
    elif arg[0] == "pair":
        _, a, b, k = arg
        for bo in ("", "=", "#"):
            for ma in multisets(12, k):
                for mb in multisets(12, k):
                    n1, n2, n3 = ma
                    left = "".join("(" + SUB[o] + ")" for o in [1] * n1 + [2] * n2 + [3] * n3)
                    smi = PAIR[a] + left + bo + star(PAIR[b], mb)
                    last = (smi, check(smi, r))
    else:
        _, n, pi, rmax = arg
        par = list(E2.parent_vectors(n))[pi]
        for rings in E2.ring_sets(n, par, rmax):
            smi = E2.write(n, par, rings, ["C"] * n, [""] * n)
            last = (smi, check(smi, r))
    if last:
        r.sample({"scope": scope, "smiles": last[0], "encoder_nonstrict": last[1], "tables": TABLES}, 1)
    return r


def replay(case):
    worker_init()
    r = Result()
    if case.get("aromatic"):
        check_aromatic(case["smiles"], r)
        return [(sig, v[0]["detail"]) for sig, v in r.viol.items()]
    check(case["smiles"], r)
    return [(sig, v[0]["detail"]) for sig, v in r.viol.items()]
