"""C09 - encoder is total: returns or raises EncoderError, always terminates.

E1 over raw SMILES *tokens* (so most strings are invalid SMILES - invalid input is the point) x the four
(strict, attribute) combinations, plus complete parametric families: branch nesting depth 1..1200 in the style that
forces recursion, ring spans and branch lengths around 16 / 256 / 4096, long chains.
"""
import functools
import signal

from mc import enum_strings as E1
from mc.runner import Result, h64

PROPERTY = "C09"
OWN_WATCHDOG = True      # per-call / per-shard watchdogs below (SIGALRM is used by this module itself)
RULE = ("every concatenation of <= L tokens from each token alphabet (prefix tree) x 4 flag combinations, and every "
        "member of each parametric family; non-trivial = distinct (flags, outcome class, output) triples")
ASSUMPTIONS = [
    "non-termination is observed as 'no result within a watchdog of 5 s + 1 s per 50 input characters'",
    "violation signatures are (exception class, innermost selfies frame)",
]

T_ALI = ["C", "N", "O", "F", "=", "#", "(", ")", "1", "2", "%"]
T_ARO = ["c", "n", "[nH]", ":", "C", "1", "%10", ".", "[", "]", "/", "\\", "%", "*", "$", "[C@TH1]", "(", ")"]
T_ODD = ["{", "}", "[{}]", "[C{0}]", "%s", "C", "c", "[", "]", "²", "%²³", "[٣C]", "[C+٣]", "Ⅷ", " ", "\n", "é", "Br", "B", "r", "[C@@@]", "[CH]", "[C--]",
         "[C+-]", "H", "[H]", "[2H]", "[cH-]", "b", "p", "[te]", "[si]", "[cn]", "[fe]", ":", "1", "-", "[C:1]", "[c:٣]",
         "[C+999999999999999999999]", "[\x00]", "\ud800"]
T_ARO_CORE = ["c", "n", "[nH]", ":", "C", "1", "(", ")", ".", "%10", "F"]
ALPH = {"aliphatic": T_ALI, "aromatic": T_ARO, "odd": T_ODD, "aromatic-core": T_ARO_CORE}
FLAGS = [(s, a) for s in (True, False) for a in (False, True)]


def aromatic_chords(nmax, kmax):
    """all-'c' chain of n atoms (n even, 6..nmax) plus every set of <= kmax chords (ring bonds), degree <= 3:
    aromatic systems with fused odd rings, where kekulization needs nested blossom contraction"""
    import itertools
    out = []
    for n in range(6, nmax + 1, 2):
        chords = [(a, b) for a in range(n) for b in range(a + 2, n)]
        for k in range(1, kmax + 1):
            for cs in itertools.combinations(chords, k):
                deg = [2] * n
                deg[0] = deg[-1] = 1
                for a, b in cs:
                    deg[a] += 1
                    deg[b] += 1
                if max(deg) > 3:
                    continue
                at = [[] for _ in range(n)]
                for lab, (a, b) in enumerate(cs, 1):
                    at[a].append(str(lab))
                    at[b].append(str(lab))
                out.append(("n=%d chords=%r" % (n, cs), "".join("c" + "".join(at[i]) for i in range(n))))
    return out


def misc_chars():
    from mc.oracles.misc import EDIT_CHARS
    return EDIT_CHARS


@functools.lru_cache(maxsize=None)
def families(tier):
    D = 1200
    fams = []
    if tier == "thorough":
        depths = list(range(1, D + 1))
    else:
        # quick: every depth up to 64, every depth across the recursion-limit cliff (900..1040), a stride elsewhere
        depths = sorted(set(range(1, 65)) | set(range(64, D + 1, 16)) | set(range(900, 1041)) | {D})
    fams.append(("nest-branch", [("d=%d" % d, "C(" * d + "C" + ")C" * d) for d in depths]))
    fams.append(("nest-branch-aromatic", [("d=%d" % d, "c1ccccc1" + "(c1ccccc1" * d + ")" * d) for d in range(1, D + 1, 11)]))
    fams.append(("nest-rings", [("d=%d" % d, "".join("C%d" % (k % 9 + 1) if k < 9 else "C%%%d" % (k + 1) for k in range(min(d, 90)))
                                 + "C" + "".join("C%d" % (k % 9 + 1) if k < 9 else "C%%%d" % (k + 1) for k in reversed(range(min(d, 90)))))
                                for d in range(1, 91)]))
    spans = [1, 2, 15, 16, 17, 255, 256, 257, 4095, 4096, 4097, 4098]
    fams.append(("ring-span", [("n=%d" % n, "C1" + "C" * n + "1") for n in spans]))
    fams.append(("branch-length", [("n=%d" % n, "C(" + "C" * n + ")C") for n in spans]))
    ns = [1, 10, 100, 1000, 5000] + ([20000] if tier == "thorough" else [])
    fams.append(("chain", [("n=%d" % n, "C" * n) for n in ns]))
    fams.append(("aromatic-chain", [("n=%d" % n, "c1ccccc1" * n) for n in ns[:4]]))
    fams.append(("open-parens", [("n=%d" % n, "C" + "(" * n) for n in (1, 10, 1000, 100000)]))
    fams.append(("dots", [("n=%d" % n, "C" + "." * n + "C") for n in (1, 2, 10, 1000)]))
    digs = (1, 10, 100, 1000, 4299, 4300, 4301, 5000, 100000)
    fams.append(("long-digit-run", [("%s n=%d" % (k, n), t % ("1" * n)) for n in digs for k, t in
                                    (("isotope", "[%sC]"), ("charge", "C[C+%s]"), ("neg-charge", "[O-%s]C"), ("class", "[C:%s]"),
                                     ("Hcount", "[CH%s]"), ("aromatic-isotope", "c1cc[%sc]cc1"))]))
    fams.append(("aromatic-chain+chords", aromatic_chords(12 if tier != "thorough" else 14, 4)))
    fams.append(("self-ring", [(s, s) for s in ("C11", "c11", "C1.C1", "C%11%11", "C12.C12", "CC11", "C1C1", "C11C",
                                                 "C=1=1", "[C@]11", "C1(C)1", "F:F", "c:[cn]", "C:C", "[Fe]:[Fe]", "c:F",
                                                 "C1:C:C:C:C:C1", "O:O", "[H]:[H]", "Cl:Cl", "B:B", "[Si]:[Si]")]))
    # edit-distance-1 neighbourhood of valid SMILES: every ASCII character (and 18 kinds of non-ASCII character) inserted at, or replacing, every
    # position of a seed, and every single deletion
    seeds = ["c1ccc[nH]c1", "C[C@@H](N)C(=O)O", "[13CH3+].[O-]", "C/C=C\\C", "C%10CC%10", "c1cc2ccccc2n1", "N#Cc1ccccc1", "C1=CC=1"]
    chars = misc_chars()
    for seed in seeds:
        mem = []
        for i in range(len(seed) + 1):
            for ch in chars:
                mem.append(("insert %r at %d" % (ch, i), seed[:i] + ch + seed[i:]))
                if i < len(seed) and ch != seed[i]:
                    mem.append(("replace %d by %r" % (i, ch), seed[:i] + ch + seed[i + 1:]))
            if i < len(seed):
                mem.append(("delete %d" % i, seed[:i] + seed[i + 1:]))
        fams.append(("edit1:" + seed, mem))
    runs = []
    for ch in "+-@H:0#=/\\%.()1Cc*$":
        for n in (1, 2, 5, 10, 15, 20, 24, 28, 32, 40, 100, 1000):
            for t in ("[N%s]", "[N%s?]", "C[C%s?]C", "C%sC", "[%sN]", "C%%%s", "c1cc[n%s?]c1", "[C@%s](F)(Cl)Br", "[CH%s?]"):
                runs.append(("%r x %d in %s" % (ch, n, t), t % (ch * n)))
    fams.append(("long-runs", runs))
    # every element of the periodic table, upper and lower case, in every role an atom can play (the element tables for
    # aromaticity, valence electrons and organic-subset membership are separate hand-written tables)
    from mc.oracles.misc import ELEMENTS
    mem = []
    for el in sorted(ELEMENTS):
        lo = el.lower()
        for t in ("[%s]", "C[%s]C", "[%s]=C", "[%s@](F)(Cl)Br", "[%sH2+]", "C1[%s]C1", "[%s]:c", "c:[%s]:c", "[%s]:[%s]"):
            mem.append((t.replace("%s", el), t.replace("%s", el)))
        for t in ("[%s]", "c1ccc[%s]c1", "[%s]c", "[%s]1cccc1", "[%sH]1cccc1", "c1cc[%s-]c1", "c1cc[%s+]cc1", "c1[%s][%s]cc1", "%s1cccc1", "C%sC"):
            mem.append((t.replace("%s", lo), t.replace("%s", lo)))
    fams.append(("every-element", mem))
    return fams


def plan(tier, seed):
    thorough = tier == "thorough"
    grid = [("aliphatic", 7 if thorough else 6), ("aromatic", 6 if thorough else 4), ("odd", 4 if thorough else 3),
            ("aromatic-core", 7 if thorough else 6)]
    scopes, tasks = [], []
    for an, L in grid:
        name = "%s/L%d" % (an, L)
        scopes.append({"name": name, "alphabet": ALPH[an], "bound_L": L, "flags": "all 4 (strict, attribute)",
                       "tree_size": E1.tree_size(len(ALPH[an]), L)})
        for sh in E1.shard_prefixes(ALPH[an], L, 2):
            tasks.append((name, ("strings", an, L, sh)))
    for fi, (fname, members) in enumerate(families(tier)):
        name = "family/" + fname
        scopes.append({"name": name, "members": len(members), "range": "%s .. %s" % (members[0][0], members[-1][0])})
        step = 8 if len(members) < 500 else 200
        for k in range(0, len(members), step):
            tasks.append((name, ("family", fi, k, k + step, tier)))
    return {"scopes": scopes, "tasks": tasks, "bounds": {"nesting_max": 1200},
            "weight": lambda t: (2 if t[1][0] == "family" and t[1][1] < 2 else 0)}


_SF = None


_TIMEOUTS = [0]          # a shard stops after 3 watchdog expiries (each costs >= 20 s); the rest is reported as a cap
_SHARD_TIMER = [False]   # short strings of a shard share one watchdog (150 s per shard) instead of one timer per call


class Timeout(BaseException):
    pass


def _alarm(signum, frame):
    raise Timeout()


def worker_init():
    global _SF
    import selfies
    _SF = selfies
    _SF.set_semantic_constraints("default")
    signal.signal(signal.SIGALRM, _alarm)


def innermost_selfies_frame(e):
    import traceback
    fr = [f for f in traceback.extract_tb(e.__traceback__) if "/selfies/" in f.filename]
    return fr[-1].name if fr else "?"


def call(s, strict, attribute):
    budget = 5 + len(s) / 50.0
    timed = True      # one interval timer per call: 5 s + 1 s per 50 characters
    if timed:
        signal.setitimer(signal.ITIMER_REAL, budget)
    try:
        try:
            res = _SF.encoder(s, strict=strict, attribute=attribute)
        finally:
            if timed:
                signal.setitimer(signal.ITIMER_REAL, 0)
    except _SF.EncoderError:
        return "EncoderError", None, None
    except Timeout:
        return "timeout", "no result within %.0f s" % budget, None
    except RecursionError as e:
        return "escaped:RecursionError", "RecursionError in %s" % innermost_selfies_frame(e), None
    except BaseException as e:
        return "escaped:%s@%s" % (type(e).__name__, innermost_selfies_frame(e)), repr(e)[:200], None
    if attribute:
        ok = (isinstance(res, tuple) and len(res) == 2 and isinstance(res[0], str) and isinstance(res[1], list))
        return ("ok" if ok else "bad-return-type"), repr(type(res)), (res[0] if ok else None)
    ok = isinstance(res, str)
    return ("ok" if ok else "bad-return-type"), repr(type(res)), (res if ok else None)


def check(s, r, extra=None):
    r.states += 1
    allok = True
    for (st, at) in FLAGS:
        r.evaluations += 1
        r.transitions += 1
        cls, detail, outp = call(s, st, at)
        if cls == "timeout":
            _TIMEOUTS[0] += 1
        if cls not in ("ok", "EncoderError"):
            allok = False
            case = {"input": s if len(s) <= 400 else None, "strict": st, "attribute": at}
            case.update(extra or {})
            r.violation(cls, case, "encoder(%r%s, strict=%s, attribute=%s): %s" % (
                s[:80], "..." if len(s) > 80 else "", st, at, detail))
        elif cls == "ok":
            r.nontrivial.add(h64((st, at, outp)))
    if allok:
        r.validated += 1


def run(task):
    scope, arg = task
    r = Result()
    if arg[0] == "strings":
        _, an, L, sh = arg
        w = None
        _SHARD_TIMER[0] = True
        try:
            _TIMEOUTS[0] = 0
            for w in E1.nodes(ALPH[an], L, sh):
                check("".join(w), r)
                if _TIMEOUTS[0] >= 3:
                    r.caps.append("shard %r stopped after 3 watchdog expiries" % (sh,))
                    break
        except Timeout:
            r.violation("timeout", {"input": "".join(w), "strict": None, "attribute": None},
                        "shard watchdog (150 s) expired while encoding %r" % ("".join(w),))
        finally:
            signal.setitimer(signal.ITIMER_REAL, 0)
            _SHARD_TIMER[0] = False
        if w is not None:
            r.sample({"scope": scope, "input": "".join(w)}, 1)
    else:
        _, fi, lo, hi, tier = arg
        fname, members = families(tier)[fi]
        _TIMEOUTS[0] = 0
        for label, s in members[lo:hi]:
            check(s, r, {"family": fname, "member": label})
            if _TIMEOUTS[0] >= 3:
                r.caps.append("shard of family %s stopped after 3 watchdog expiries" % fname)
                break
        if lo == 0:
            r.sample({"scope": scope, "member": members[0][0], "input": members[0][1][:100]})
    return r


def replay(case):
    worker_init()
    s = case.get("input")
    if s is None:
        for fname, members in families("thorough"):
            if fname == case.get("family"):
                for label, x in members:
                    if label == case.get("member"):
                        s = x
    cls, detail, _ = call(s, case["strict"], case["attribute"])
    return [] if cls in ("ok", "EncoderError") else [(cls, detail)]
