"""C07 - any string over the semantically robust alphabet is a valid molecule, for every accepted table.

Tables are enumerated (presets, every single-key table over a key palette x capacities x '?' capacities, every two-key
table over a reduced palette); for every table the setter accepts: membership clauses of the alphabet, every symbol
decodes alone, every string of <= 2 symbols over the *whole* alphabet and of <= L over (all its atom symbols + six
structural representatives) decodes without error to a molecule that passes the C01 oracle under that table.
"""
import itertools

from mc import enum_strings as E1
from mc.oracles import misc
from mc.props import c01
from mc.runner import Result, h64

PROPERTY = "C07"
RULE = ("state = (table, string prefix); tables: the enumerated family; strings: prefix tree over the alphabet returned "
        "for that table; non-trivial = distinct (table, non-empty output) pairs")
ASSUMPTIONS = [
    "a table is 'accepted' when set_semantic_constraints(table) returns without raising",
    "validity of a decoded molecule is judged exactly as in C01 (independent reader + capacity lookup)",
    "'reflects the table in force' across call histories is explored in C11/C12 (E3); here each table is installed "
    "after a different one so a stale alphabet would show as a membership failure",
]

KEYS = ["C", "N", "H", "Fe", "Xe", "C+1", "N-1", "Fe+2", "Fe+10", "O-12", "C+0", "C+01", "Cl", "C+²", "Og",
        "c", "C+", "C1", "+1", "Fe+2+1", "S-3"]
CAPS = [0, 1, 2, 3, 4, 9]
QCAPS = [0, 2, 8]
KEYS2 = ["C", "Fe+2", "N-1", "Cl", "H", "O-12"]
CONT = ["[C]", "[=C]", "[Branch1]", "[Ring1]", "[=Ring1]"]
STRUCT = ["[Branch1]", "[#Branch2]", "[Ring1]", "[=Ring1]", "[=Branch1]", "[Ring2]"]


def table_family():
    fam = [("preset:" + n, n) for n in ("default", "octet_rule", "hypervalent")]
    for k in KEYS:
        for c in CAPS:
            for q in QCAPS:
                fam.append(("1key:%s=%d,?=%d" % (k, c, q), {k: c, "?": q}))
    for k1, k2 in itertools.combinations(KEYS2, 2):
        for c1 in (0, 1, 3):
            for c2 in (1, 2, 9):
                for q in (0, 3):
                    fam.append(("2key:%s=%d,%s=%d,?=%d" % (k1, c1, k2, c2, q), {k1: c1, k2: c2, "?": q}))
    # the same contents with '?' listed first / in the middle (dict order must not matter)
    for name, t in list(fam):
        if isinstance(t, dict) and len(t) >= 2 and (name.startswith("2key") or ("=3,?=2" in name or "=4,?=8" in name)):
            items = list(t.items())
            fam.append((name + " [?-first]", dict([items[-1]] + items[:-1])))
    # edit-distance-1 neighbourhood of valid keys (every ASCII character incl. control characters, and three non-ASCII ones,
    # inserted at / replacing every position, every deletion): whatever the setter accepts must give a decodable alphabet
    chars = [chr(c) for c in range(128)] + ["\u0661", "\u00b2", "\u2028"]
    seen = set()
    for seed in ("C", "Cl", "Fe+2", "N-1"):
        cand = [seed[:i] + seed[i + 1:] for i in range(len(seed))]
        for i in range(len(seed) + 1):
            for ch in chars:
                cand.append(seed[:i] + ch + seed[i:])
                if i < len(seed):
                    cand.append(seed[:i] + ch + seed[i + 1:])
        for k in cand:
            if k not in seen and k != "?":
                seen.add(k)
                fam.append(("nbr:%r" % k, {k: 2, "?": 3}))
    d = {"H": 1, "F": 1, "?": 8, "Sn+4": 3, "Se": 2, "O": 2, "N": 3, "Fe+2": 2}
    fam.append(("?-in-the-middle", d))
    fam.append(("only-?=0", {"?": 0}))
    fam.append(("only-?=12", {"?": 12}))
    return fam


def plan(tier, seed):
    thorough = tier == "thorough"
    fam = table_family()
    L = 5 if thorough else 4
    tasks = [("tables", (i, L)) for i in range(len(fam))]
    # (a task is one table; the key-neighbourhood tables are mostly rejected by the setter and cost next to nothing)
    scopes = [{"name": "tables", "tables": len(fam), "key_palette": KEYS, "capacities": CAPS, "default_capacities": QCAPS,
               "bound_whole_alphabet": 2, "bound_atoms_plus_structural": L, "structural_representatives": STRUCT}]
    # rings competing for the same valences from both directions need 9 symbols (a ring queued inside a branch targets the
    # branch root, which then closes its own multiple ring bond): every string over five robust symbols up to that length
    Lc = 9
    scopes.append({"name": "ring-contention", "alphabet": CONT, "bound_L": Lc, "tables": ["default", "octet_rule (quick: L-1)", "hypervalent (quick: L-1)"],
                   "tree_size": E1.tree_size(len(CONT), Lc)})
    for tn in ("default", "octet_rule", "hypervalent"):
        Lt = Lc if (tn == "default" or thorough) else Lc - 1
        for sh in E1.shard_prefixes(CONT, Lt, 2):
            tasks.append(("ring-contention", ("cont", tn, Lt, sh)))
    return {"scopes": scopes, "tasks": tasks, "bounds": {"L": L, "L_contention": Lc},
            "weight": lambda t: 1 if (t[0] == "tables" and t[1][0] < 3) else 0}


_SF = None


def worker_init():
    global _SF
    import selfies
    _SF = selfies
    from mc import hist_explorer as H
    H.walker()          # snapshot of the import-time state
    c01.worker_init()


def required_symbols(table):
    req = set(misc.INDEX)
    for L in (1, 2, 3):
        req |= {"[Branch%d]" % L, "[=Branch%d]" % L, "[#Branch%d]" % L, "[Ring%d]" % L, "[=Ring%d]" % L}
    forbidden = set()
    for k, c in table.items():
        if k == "?":
            continue
        for b, m in (("", 1), ("=", 2), ("#", 3)):
            (req if m <= c else forbidden).add("[%s%s]" % (b, k))
    return req, forbidden - req


def run_contention(arg):
    _, tn, L, sh = arg
    r = Result()
    _SF.set_semantic_constraints("".join(list(tn)))
    t = _SF.get_semantic_constraints()
    alpha = _SF.get_semantic_robust_alphabet()
    case = {"table_name": tn, "table": tn}
    if not set(CONT) <= set(alpha):
        r.violation("alphabet-missing-required", case, "missing %r" % sorted(set(CONT) - set(alpha)))
        return r
    r.states += 1
    s = None
    for w in E1.nodes(CONT, L, sh):
        s = "".join(w)
        r.evaluations += 1
        r.transitions += 1
        try:
            out = _SF.decoder(s)
        except _SF.DecoderError:
            r.violation("decoder-rejects-robust-string", dict(case, selfies=s), "decoder(%r) raised DecoderError under %s" % (s, tn))
            continue
        except Exception as e:
            r.violation("escaped:" + type(e).__name__, dict(case, selfies=s), repr(e)[:200])
            continue
        v = c01.check_output(out, t, s)
        if v:
            r.violation("invalid-molecule:" + v[0], dict(case, selfies=s), v[1])
        else:
            r.validated += 1
            if out:
                r.nontrivial.add(h64((tn, out)))
    if s:
        r.sample({"scope": "ring-contention", "table": tn, "selfies": s}, 1)
    return r


def run(task):
    if task[0] == "ring-contention":
        return run_contention(task[1])
    _, (ti, L) = task
    r = Result()
    fam = table_family()
    name, table = fam[ti]
    # "reflects the table in force": first install a *super-table* of the target (same entries plus Zn and Zr) and
    # fill the alphabet and capacity caches under it, so that a stale cache cannot go unnoticed when only keys are
    # dropped; for every third table the predecessor is an unrelated table instead
    if isinstance(table, dict) and "?" in table and ti % 3:
        pre = dict(table)
    elif isinstance(table, str) and ti % 3:
        pre = _SF.get_preset_constraints(table)
    else:
        pre = {"?": 1}
    pre.update({"Zn": 7, "Zr": 6})
    try:
        _SF.set_semantic_constraints(pre)
        _SF.get_semantic_robust_alphabet()
        _SF.decoder("[Zn][#Zn][=Zr][C][N+1][Fe+2]")
    except ValueError:
        _SF.set_semantic_constraints({"Zn": 7, "?": 1})
        _SF.get_semantic_robust_alphabet()
    r.states += 1
    try:
        _SF.set_semantic_constraints(table if isinstance(table, str) else dict(table))
    except ValueError:
        r.cov["tables rejected by the setter"] += 1
        r.evaluations += 1
        return r
    except Exception as e:
        r.violation("setter-raises:" + type(e).__name__, {"table": table}, repr(e))
        return r
    r.cov["tables accepted"] += 1
    t = _SF.get_semantic_constraints()
    case = {"table_name": name, "table": table}
    alpha = _SF.get_semantic_robust_alphabet()
    req, forb = required_symbols(t)
    r.evaluations += 1
    if not req <= set(alpha):
        r.violation("alphabet-missing-required", case, "missing %r" % sorted(req - set(alpha))[:8])
    if forb & set(alpha):
        r.violation("alphabet-has-over-capacity-symbol", case, "contains %r" % sorted(forb & set(alpha))[:8])
    # "reflects the table in force": the same table installed on a library restored to its import-time state must
    # give the same alphabet (differential, so extra symbols a refactor may legitimately add are not judged)
    from mc import hist_explorer as H
    H.restore()
    _SF.set_semantic_constraints(table if isinstance(table, str) else dict(table))
    fresh = set(_SF.get_semantic_robust_alphabet())
    if fresh != set(alpha):
        r.violation("alphabet-reflects-a-previous-table", case,
                    "after installing %r the alphabet has %r extra and misses %r compared with a fresh library set to "
                    "the same table" % (pre, sorted(set(alpha) - fresh)[:6], sorted(fresh - set(alpha))[:6]))
    # re-create the history for the decoding part (capacity caches filled under the predecessor table)
    H.restore()
    try:
        _SF.set_semantic_constraints(pre)
        _SF.get_semantic_robust_alphabet()
        _SF.decoder("[Zn][#Zn][=Zr][C][N+1][Fe+2]")
    except ValueError:
        pass
    mine = table if isinstance(table, str) else dict(table)
    _SF.set_semantic_constraints(mine)
    if isinstance(mine, dict):
        # the caller goes on using its own dict: the table in force stays the one that was installed
        for k in list(mine):
            mine[k] = 0
        mine["Zn"] = 9
    # ... and a rejected update (valid entries first, the offending one last) comes in between: still the same table in force
    for bad in ({"?": 0, "C": 0, "N": 0, "O": 0, "Xx": 1}, {"C": 1, "N": 1, "?": -1}, {"H": 0}):
        try:
            _SF.set_semantic_constraints(bad)
        except ValueError:
            pass
    alpha = _SF.get_semantic_robust_alphabet()
    if set(alpha) != fresh:
        r.violation("alphabet-follows-the-callers-dict", case, "the caller changed the dict it had passed to the setter; "
                    "alphabet now has %r extra and misses %r" % (sorted(set(alpha) - fresh)[:6], sorted(fresh - set(alpha))[:6]))
    A = sorted(alpha)
    atoms = [x for x in A if x[1:-1].lstrip("=#") in t]
    sub = atoms + [x for x in STRUCT if x in alpha]

    def check(s, kind):
        r.evaluations += 1
        r.transitions += 1
        try:
            out = _SF.decoder(s)
        except _SF.DecoderError:
            sig = "decoder-rejects-robust-symbol" if kind == "single" else "decoder-rejects-robust-string"
            r.violation(sig, dict(case, selfies=s), "decoder(%r) raised DecoderError under table %r" % (s, table))
            return
        except Exception as e:
            r.violation("escaped:" + type(e).__name__, dict(case, selfies=s), repr(e)[:200])
            return
        v = c01.check_output(out, t, s)
        if v:
            r.violation("invalid-molecule:" + v[0], dict(case, selfies=s), v[1])
        else:
            r.validated += 1
            if out:
                r.nontrivial.add(h64((name, out)))

    for x in A:
        check(x, "single")
    for w in itertools.product(A, repeat=2):
        check("".join(w), "pair")
    # deeper over atoms + structural representatives (cap the sub-alphabet for the big presets)
    subL = L if len(sub) <= 12 else (L - 1 if len(sub) <= 30 else L - 2)
    if name.startswith("nbr:"):
        subL = 2        # neighbourhood tables: membership clauses, singles and pairs only
    for l in range(3, subL + 1):
        for w in itertools.product(sub, repeat=l):
            check("".join(w), "deep")
    # nesting deeper than the interpreter's recursion limit, over the robust alphabet (only [C] or the first atom symbol)
    root = "[C]" if "[C]" in alpha else (atoms[0] if atoms else None)
    if root is not None and ti % 50 < 3:
        for d in (500, 1000, 1500):
            check((root + "[Branch3][P][P][P]") * d + root, "deep")
    r.extra["max_alphabet"] = len(A)
    if ti % 37 == 0:
        r.sample({"table": table, "alphabet_size": len(A), "atom_symbols": atoms[:6], "deep_bound": subL})
    return r


def replay(case):
    worker_init()
    t = case["table"]
    _SF.set_semantic_constraints(t if isinstance(t, str) else dict(t))
    out = []
    s = case.get("selfies")
    if s is None:
        return [("table-level", "re-run ./check C07 to re-evaluate membership clauses for %r" % (t,))]
    try:
        o = _SF.decoder(s)
    except _SF.DecoderError:
        return [("decoder-rejects-robust-string", "decoder(%r) raised DecoderError" % s)]
    v = c01.check_output(o, _SF.get_semantic_constraints(), s)
    return [v] if v else []
