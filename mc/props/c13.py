"""C13 - [nop] padding is invisible to the decoder.

E1 over an alphabet with branches, rings, index symbols, '.', an out-of-grammar symbol; for every string w every
subset of the |w|+1 insertion positions receives a [nop] (2^(|w|+1) variants) and every single position a doubled
[nop]; the outcome (returned SMILES, or the exception class) must equal that of the unpadded string.  The padding
path of selfies_to_encoding -> encoding_to_selfies is exercised for every string and pad length.
"""
import itertools

from mc import enum_strings as E1
from mc import tables
from mc.oracles import misc
from mc.runner import Result, h64

PROPERTY = "C13"
RULE = ("every token string of length <= L over the alphabet (prefix tree) x every subset of its |w|+1 [nop] "
        "insertion positions; non-trivial = distinct non-empty SMILES returned for the unpadded strings")
ASSUMPTIONS = [
    "the reference outcome is the implementation's own result on the unpadded string (differential oracle); what "
    "that result should be is C02's business",
    "exceptions are compared by class",
]

A_NOP = ["[C]", "[=N]", "[O]", "[Branch1]", "[#Branch1]", "[Ring1]", "[=Ring2]", ".", "[Xx]"]
A_NOP2 = ["[C]", "[=C]", "[Branch2]", "[Ring1]", "[Ring2]", "[epsilon]", "[/C]", "[-\\Ring1]"]
# branches that terminate early (halogen, =O, [epsilon]) and leave a discarded tail inside their symbol budget
A_NOP3 = ["[C]", "[F]", "[=O]", "[Branch1]", "[Ring1]", "[epsilon]", "[N]"]
ALPH = {"main": A_NOP, "second": A_NOP2, "early-end": A_NOP3}


def plan(tier, seed):
    thorough = tier == "thorough"
    grid = [("main", "default", 6 if thorough else 5), ("second", "default", 6 if thorough else 5),
            ("main", "mix", 5 if thorough else 4), ("early-end", "default", 7 if thorough else 6)]
    extras = [("second", "big", 4), ("main", "hypervalent", 4), ("second", "octet_rule", 4)]
    grid.append(extras[seed % len(extras)])
    scopes, tasks = [], []
    for an, tn, L in grid:
        name = "%s/%s/L%d" % (an, tn, L)
        scopes.append({"name": name, "alphabet": ALPH[an], "table": tn, "bound_L": L,
                       "tree_size": E1.tree_size(len(ALPH[an]), L),
                       "variants_per_string": "2^(|w|+1) subsets (|w| <= 5; for longer strings every single position and all "
                                              "positions) + (|w|+1) doubled + single/all positions under compatible=True and "
                                              "attribute=True + pad round trips"})
        for sh in E1.shard_prefixes(ALPH[an], L, 2):
            tasks.append((name, (an, tn, L, sh)))
    scopes.append({"name": "table-switch", "alphabet": A_NOP, "bound_L": 4 if thorough else 3,
                   "tables": ["default", "mix", "octet_rule", "big", "default"],
                   "desc": "each string is decoded unpadded and in three padded forms under every table in turn (the table changes "
                           "between consecutive decodes of the same padded string)"})
    for k in range(16):
        tasks.append(("table-switch", ("switch", k, 16, 4 if thorough else 3)))
    runs = [1, 2, 3, 10, 100, 500, 900, 1000, 1100, 2000, 5000] + ([20000] if thorough else [])
    scopes.append({"name": "long-nop-runs", "run_lengths": runs,
                   "desc": "k consecutive [nop] at every position of each base string (incl. index positions, inside nested "
                           "branches, around dots), and selfies_to_encoding padding to len+k", "bases": BASES})
    for bi in range(len(BASES)):
        tasks.append(("long-nop-runs", ("runs", bi, runs)))
    return {"scopes": scopes, "tasks": tasks, "bounds": {"max_L": max(g[2] for g in grid), "max_nop_run": runs[-1]}}


BASES = ["[C][O]", "[C][Branch1][Ring1][C][F][N]", "[C][C][C][Ring1][Ring1][O]", "[C][O].[N][F]",
         "[C][Branch2][Ring1][C]" + "[C]" * 20 + "[F]", "[S][#Branch3][P][P][P][S][#Branch3][P][P][P][=O]", "[Xx][C]", ""]
_SF = None
_CUR = [None]


def worker_init():
    global _SF
    import selfies
    _SF = selfies


def outcome(s, **kw):
    try:
        res = _SF.decoder(s, **kw)
        if isinstance(res, tuple):      # positions ignore [nop], so the attribution must be identical too
            return ("ok", res[0], tuple((a.index, a.token, tuple((x.index, x.token) for x in (a.attribution or []))) for a in res[1]))
        return ("ok", res)
    except _SF.DecoderError:
        return ("DecoderError",)
    except Exception as e:
        return ("exc", type(e).__name__)


def variants(w):
    n = len(w)
    masks = range(1, 1 << (n + 1)) if n <= 5 else [1 << i for i in range(n + 1)] + [(1 << (n + 1)) - 1]
    for mask in masks:
        parts = []
        for i in range(n + 1):
            if mask >> i & 1:
                parts.append("[nop]")
            if i < n:
                parts.append(w[i])
        yield ("subset", mask), "".join(parts)
    for i in range(n + 1):
        yield ("double", i), "".join(w[:i]) + "[nop][nop]" + "".join(w[i:])


def check(w, r, table):
    s = "".join(w)
    base = outcome(s)
    r.states += 1
    if base[0] == "ok" and base[1]:
        r.nontrivial.add(h64(base[1]))
    bad = None
    for tag, v in variants(w):
        r.evaluations += 1
        r.transitions += 1
        got = outcome(v)
        if got != base:
            bad = (tag, v, got)
            r.violation("nop-changes-outcome" if base[0] == got[0] else "nop-changes-acceptance",
                        {"selfies": s, "padded": v, "table": table}, "decoder(%r)=%r but decoder(%r)=%r" % (s, base, v, got))
            break
    # the same with the flags set (every single insertion position and the all-positions variant)
    if bad is None:
        n = len(w)
        for kw in ({"compatible": True}, {"attribute": True}):
            basef = outcome(s, **kw)
            for mask in [1 << i for i in range(n + 1)] + [(1 << (n + 1)) - 1]:
                parts = []
                for i in range(n + 1):
                    if mask >> i & 1:
                        parts.append("[nop]")
                    if i < n:
                        parts.append(w[i])
                v = "".join(parts)
                r.evaluations += 1
                got = outcome(v, **kw)
                if got != basef:
                    bad = (kw, v, got)
                    r.violation("nop-changes-outcome-with-flag:" + next(iter(kw)), {"selfies": s, "padded": v, "table": table, "flags": kw},
                                "decoder(%r, %r)=%r but decoder(%r, %r)=%r" % (s, kw, basef, v, kw, got))
                    break
            if bad is not None:
                break
    # padding through the encoding utilities (needs every symbol in the vocabulary)
    if misc.is_wellformed_single_dots(s):      # the encoding utilities are defined on single-dot strings (C14)
        syms = sorted(set(w) | {"[nop]", "."})
        stoi = {x: i for i, x in enumerate(syms)}
        itos = {i: x for x, i in stoi.items()}
        for pad in (len(w) + 1, len(w) + 3):
            r.evaluations += 1
            try:
                lab = _SF.selfies_to_encoding(s, stoi, pad_to_len=pad, enc_type="label")
                back = _SF.encoding_to_selfies(lab, itos, enc_type="label")
            except Exception as e:
                r.violation("pad-roundtrip-raises", {"selfies": s, "pad": pad, "table": table}, repr(e)[:200])
                continue
            got = outcome(back)
            if got != base:
                r.violation("pad-roundtrip-changes-outcome", {"selfies": s, "padded": back, "table": table},
                            "decoder(%r)=%r but padded %r -> %r" % (s, base, back, got))
                bad = True
    if bad is None:
        r.validated += 1
    return base


def run_runs(arg, r):
    _, bi, runs = arg
    base = BASES[bi]
    w = misc.tokenize(base)
    tables.set_table(_SF, "default")
    _CUR[0] = "default"
    table = _SF.get_semantic_constraints()
    ref = outcome(base)
    r.states += 1
    for k in runs:
        for pos in range(len(w) + 1):
            v = "".join(w[:pos]) + "[nop]" * k + "".join(w[pos:])
            r.evaluations += 1
            r.transitions += 1
            got = outcome(v)
            if got != ref:
                r.violation("nop-run-changes-outcome" if got[0] == ref[0] else "nop-run-changes-acceptance",
                            {"selfies": base, "padded": None, "nop_run": k, "position": pos, "table": table},
                            "decoder(%r)=%r but with %d [nop] inserted at symbol position %d: %r" % (base, ref, k, pos, got))
            else:
                r.validated += 1
        if misc.is_wellformed_single_dots(base) and base:
            syms = sorted(set(w) | {"[nop]", "."})
            stoi = {x: i for i, x in enumerate(syms)}
            itos = {i: x for x, i in stoi.items()}
            r.evaluations += 1
            try:
                lab = _SF.selfies_to_encoding(base, stoi, pad_to_len=len(w) + k, enc_type="label")
                back = _SF.encoding_to_selfies(lab, itos, enc_type="label")
                got = outcome(back)
            except Exception as e:
                got = ("pad-raises", repr(e)[:80])
            if got != ref:
                r.violation("pad-roundtrip-changes-outcome", {"selfies": base, "padded": None, "nop_run": k, "position": "pad", "table": table},
                            "decoder(%r)=%r but padded to len+%d -> %r" % (base, ref, k, got))
            else:
                r.validated += 1
    if ref[0] == "ok" and ref[1]:
        r.nontrivial.add(h64(ref[1]))
    r.sample({"scope": "long-nop-runs", "selfies": base, "runs": runs}, 1)
    return r


def run_switch(arg, r):
    _, k, nsh, L = arg
    cnt = 0
    for l in range(1, L + 1):
        for w in itertools.product(A_NOP, repeat=l):
            cnt += 1
            if cnt % nsh != k:
                continue
            s = "".join(w)
            forms = ["[nop]" + s, "[nop]".join(w) + "[nop]", s + "[nop][nop]"]
            r.states += 1
            for tn in ("default", "mix", "octet_rule", "big", "default"):
                tables.set_table(_SF, tn)
                _CUR[0] = tn
                base = outcome(s)
                for v in forms:
                    r.evaluations += 1
                    r.transitions += 1
                    got = outcome(v)
                    if got != base:
                        r.violation("nop-changes-outcome-after-table-switch", {"selfies": s, "padded": v, "table": _SF.get_semantic_constraints(),
                                                                               "tables_before": "default, mix, octet_rule, big (in this order, same strings)"},
                                    "under table %s decoder(%r)=%r but decoder(%r)=%r" % (tn, s, base, v, got))
                    else:
                        r.validated += 1
    r.sample({"scope": "table-switch", "selfies": "[C][=N][O]", "padded": "[nop][C][=N][O]"}, 1)
    return r


def run(task):
    if task[1][0] == "switch":
        return run_switch(task[1], Result())
    if task[1][0] == "runs":
        return run_runs(task[1], Result())
    scope, (an, tn, L, sh) = task
    r = Result()
    if _CUR[0] != tn:
        tables.set_table(_SF, tn)
        _CUR[0] = tn
    table = _SF.get_semantic_constraints()
    w = None
    for w in E1.nodes(ALPH[an], L, sh):
        base = check(w, r, table)
    if w is not None:
        r.sample({"scope": scope, "selfies": "".join(w), "decoder": base, "variants": (1 << (len(w) + 1)) - 1 + len(w) + 1}, 1)
    return r


def replay(case):
    worker_init()
    _SF.set_semantic_constraints(dict(case["table"]))
    if case.get("padded") is None and "nop_run" in case:
        w = misc.tokenize(case["selfies"])
        if case["position"] == "pad":
            syms = sorted(set(w) | {"[nop]", "."})
            stoi = {x: i for i, x in enumerate(syms)}
            lab = _SF.selfies_to_encoding(case["selfies"], stoi, pad_to_len=len(w) + case["nop_run"], enc_type="label")
            case["padded"] = _SF.encoding_to_selfies(lab, {i: x for x, i in stoi.items()}, enc_type="label")
        else:
            case["padded"] = "".join(w[:case["position"]]) + "[nop]" * case["nop_run"] + "".join(w[case["position"]:])
    kw = case.get("flags") or {}
    a, b = outcome(case["selfies"], **kw), outcome(case["padded"], **kw)
    return [] if a == b else [("nop-changes-outcome", "decoder(%r)=%r but decoder(%r)=%r" % (case["selfies"], a, case["padded"], b))]
