"""E1 - bounded-exhaustive string explorer.

The transition system is the prefix tree over an alphabet A: state = tuple of tokens, transition = append one
token.  Every node with depth <= L is visited exactly once; shards are sub-trees below the prefixes of length
`split` (plus one shard holding the nodes above them), so the union of shards is the whole tree.
"""
import itertools


def shard_prefixes(alphabet, L, split=2):
    """task arguments: ('short',) for all nodes of depth < split, then one per prefix of length split"""
    split = min(split, L)
    out = [("short", split)]
    if L >= split:
        for p in itertools.product(range(len(alphabet)), repeat=split):
            out.append(("sub", p))
    return out


def nodes(alphabet, L, shard):
    """yield token tuples of the shard"""
    if shard[0] == "short":
        for l in range(0, shard[1]):
            if l > L:
                break
            for w in itertools.product(alphabet, repeat=l):
                yield w
    else:
        pre = tuple(alphabet[i] for i in shard[1])
        for l in range(0, L - len(pre) + 1):
            for w in itertools.product(alphabet, repeat=l):
                yield pre + w


def tree_size(k, L):
    return sum(k ** l for l in range(L + 1))
