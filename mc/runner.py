"""Runner: shards a property's bounded-exhaustive exploration over worker processes, merges the
counters, matches violations against known_findings.json, writes evidence + replay files.

A property module (mc/props/cNN.py) provides
    PROPERTY, TITLE, RULE, ASSUMPTIONS
    plan(tier, seed)   -> {"scopes": [ {name, desc, bound, ...} ], "tasks": [ (scope_name, arg) ... ]}
    run(task)          -> Result            (executed in a long-lived worker process)
    replay(case)       -> [violation dict]  (re-runs one recorded case without the explorer)
"""
import collections
import hashlib
import json
import multiprocessing as mp
import os
import random
import signal
import sys
import time
import traceback

VERIF = os.path.dirname(os.path.dirname(os.path.abspath(__file__)))
REPO = os.environ.get("VERIF_REPO", "/repo")
NPROC = int(os.environ.get("VERIF_PROCS", "16"))
MAX_VIOL_PER_SIG = 5


def bind_repo():
    """make `import selfies` resolve to the working tree under REPO, and prove it."""
    if REPO not in sys.path[:1]:
        sys.path.insert(0, REPO)
    import warnings
    warnings.simplefilter("ignore")
    import selfies
    here = os.path.realpath(selfies.__file__)
    if not here.startswith(os.path.realpath(REPO) + os.sep):
        raise SystemExit("HARNESS ERROR: selfies imported from %s, not from %s" % (here, REPO))
    return selfies


def h64(obj):
    if not isinstance(obj, (bytes, bytearray)):
        obj = repr(obj).encode("utf8", "surrogatepass")
    return int.from_bytes(hashlib.blake2b(obj, digest_size=8).digest(), "big")


class Result:
    """what one shard reports back"""
    __slots__ = ("evaluations", "states", "transitions", "validated", "nontrivial", "viol", "viol_counts",
                 "samples", "cov", "caps", "extra")

    def __init__(self):
        self.evaluations = 0
        self.states = 0
        self.transitions = 0
        self.validated = 0
        self.nontrivial = set()
        self.viol = {}                      # sig -> [ {case, detail} ]   (first few per signature)
        self.viol_counts = collections.Counter()
        self.samples = []
        self.cov = collections.Counter()
        self.caps = []
        self.extra = {}                     # numeric extras, summed on merge (or max if key starts with 'max_')

    def violation(self, sig, case, detail=""):
        self.viol_counts[sig] += 1
        lst = self.viol.setdefault(sig, [])
        if len(lst) < MAX_VIOL_PER_SIG:
            from mc import prelude
            lst.append({"case": case, "detail": detail, "prelude_turn": prelude.LAST[0]})

    def sample(self, x, limit=3):
        if len(self.samples) < limit:
            self.samples.append(x)

    def merge(self, o):
        self.evaluations += o.evaluations
        self.states += o.states
        self.transitions += o.transitions
        self.validated += o.validated
        self.nontrivial |= o.nontrivial
        for sig, lst in o.viol.items():
            mine = self.viol.setdefault(sig, [])
            for v in lst:
                if len(mine) < MAX_VIOL_PER_SIG:
                    mine.append(v)
        self.viol_counts.update(o.viol_counts)
        self.samples.extend(o.samples)
        self.cov.update(o.cov)
        self.caps.extend(o.caps)
        for k, v in o.extra.items():
            if k.startswith("_"):
                continue            # per-shard payload for the module's own explorer, not a counter
            if k.startswith("max_"):
                self.extra[k] = max(self.extra.get(k, v), v)
            elif isinstance(v, (int, float)):
                self.extra[k] = self.extra.get(k, 0) + v
            else:
                self.extra.setdefault(k, v)


_MOD = None


def _worker_init(modname):
    global _MOD
    signal.signal(signal.SIGINT, signal.SIG_IGN)
    try:        # a run-away allocation in the code under test becomes a MemoryError in that worker, not an OOM kill
        import resource
        cap = int(float(os.environ.get("VERIF_WORKER_MEM_GB", "3")) * (1 << 30))
        resource.setrlimit(resource.RLIMIT_AS, (cap, cap))
    except Exception:
        pass
    bind_repo()
    import importlib
    _MOD = importlib.import_module(modname)
    if hasattr(_MOD, "worker_init"):
        _MOD.worker_init()


class TaskTimeout(BaseException):
    pass


def _task_alarm(signum, frame):
    raise TaskTimeout()


TASK_TIMEOUT = float(os.environ.get("VERIF_TASK_TIMEOUT", "1500"))


def _worker_run(task):
    """one shard; a shard that does not finish within TASK_TIMEOUT seconds is reported as a violation
    ('the implementation did not terminate on ...'), never left hanging"""
    t0 = time.time()
    own_timer = not getattr(_MOD, "OWN_WATCHDOG", False)
    try:
        if own_timer:
            signal.signal(signal.SIGALRM, _task_alarm)
            signal.setitimer(signal.ITIMER_REAL, TASK_TIMEOUT)
        try:
            if getattr(_MOD, "PRELUDE", True):
                from mc import prelude
                prelude.dirty()         # every shard starts in a library that has just seen failing calls of every kind
            r = _MOD.run(task)
        finally:
            if own_timer:
                signal.setitimer(signal.ITIMER_REAL, 0)
        r.extra["cpu_s"] = r.extra.get("cpu_s", 0) + (time.time() - t0)
        return ("ok", task, r)
    except TaskTimeout:
        r = Result()
        cur = getattr(_MOD, "CURRENT", None)
        r.violation("non-termination-within-task-watchdog",
                    {"task": repr(task)[:300], "current_input": cur if cur is None else repr(cur)[:400]},
                    "shard %r did not finish within %.0f s; last input handed to the implementation: %r"
                    % (task[0], TASK_TIMEOUT, cur if cur is None else repr(cur)[:200]))
        r.extra["cpu_s"] = time.time() - t0
        return ("ok", task, r)
    except BaseException:
        return ("harness_error", task, traceback.format_exc())


def load_known(prop):
    p = os.path.join(VERIF, "known_findings.json")
    if not os.path.exists(p):
        return []
    with open(p) as f:
        data = json.load(f)
    return [e for e in data.get("findings", []) if e.get("property") == prop and e.get("status") == "known"]


def match_known(known, sig):
    for e in known:
        if e.get("signature") == sig:
            return e
        pre = e.get("signature_prefix")
        if pre and sig.startswith(pre):
            return e
    return None


def write_replay(prop, sig, v, modname):
    d = os.path.join(os.environ.get("VERIF_REPLAY_DIR") or os.path.join(VERIF, "replays"), prop)
    os.makedirs(d, exist_ok=True)
    name = "%016x.json" % h64(sig)
    path = os.path.join(d, name)
    with open(path, "w") as f:
        json.dump({"property": prop, "module": modname, "signature": sig, "case": v["case"],
                   "detail": v["detail"], "prelude_turn": v.get("prelude_turn")}, f, indent=1, default=repr)
    return path


def run_property(modname, tier, seed, only_scopes=None):
    bind_repo()
    import importlib
    mod = importlib.import_module(modname)
    prop = mod.PROPERTY
    t0 = time.time()
    plan = mod.plan(tier, seed)
    tasks = list(plan["tasks"])
    if only_scopes:
        tasks = [t for t in tasks if t[0] in only_scopes]
    rnd = random.Random(seed)
    rnd.shuffle(tasks)
    # heavy tasks first when the plan marks them, the seed only permutes within equal weight
    weight = plan.get("weight")
    if weight:
        tasks.sort(key=lambda t: -weight(t))
    total = Result()
    per_scope = collections.defaultdict(Result)
    harness_errors = []
    nproc = min(NPROC, max(1, len(tasks)))
    ctx = mp.get_context("fork")
    def absorb(status, task, r):
        if status != "ok":
            harness_errors.append((task, r))
            return None
        total.merge(r)
        ps = per_scope[task[0]]
        ps.evaluations += r.evaluations
        ps.states += r.states
        ps.transitions += r.transitions
        ps.validated += r.validated
        ps.nontrivial |= r.nontrivial
        ps.extra["cpu_s"] = ps.extra.get("cpu_s", 0) + r.extra.get("cpu_s", 0)
        return r

    if hasattr(mod, "explore"):
        nproc = NPROC
    with ctx.Pool(nproc, initializer=_worker_init, initargs=(modname,)) as pool:
        if hasattr(mod, "explore"):
            # explicit-state search: the module drives the frontier level by level and hands each level's
            # transitions to the pool; `submit` returns the shard results after absorbing their counters
            def submit(level_tasks):
                out = []
                for status, task, r in pool.imap_unordered(_worker_run, level_tasks, chunksize=1):
                    r = absorb(status, task, r)
                    if r is not None:
                        out.append((task, r))
                return out
            mod.explore(submit, plan, total, tier, seed)
        else:
            for status, task, r in pool.imap_unordered(_worker_run, tasks, chunksize=1):
                absorb(status, task, r)
    if hasattr(mod, "finish"):
        # cross-shard obligations (e.g. cross-process determinism) evaluated once in the master
        mod.finish(total, tier, seed)
    wall = time.time() - t0

    if harness_errors:
        for task, tb in harness_errors[:3]:
            sys.stderr.write("HARNESS ERROR in task %r\n%s\n" % (task, tb))
        print("HARNESS-ERROR property=%s tasks_failed=%d" % (prop, len(harness_errors)))
        return 2

    known = load_known(prop)
    unknown, known_hit = [], collections.OrderedDict()
    for sig in sorted(total.viol, key=lambda s: (len(s), s)):
        e = match_known(known, sig)
        if e is not None:
            known_hit.setdefault(e["id"], [e, 0, None])
            known_hit[e["id"]][1] += total.viol_counts[sig]
            if known_hit[e["id"]][2] is None:
                known_hit[e["id"]][2] = total.viol[sig][0]
        else:
            unknown.append(sig)

    # ---- evidence
    rnd2 = random.Random(seed + 1)
    samples = list(total.samples)
    rnd2.shuffle(samples)
    samples = samples[:12]
    scopes_out = []
    for sc in plan["scopes"]:
        ps = per_scope.get(sc["name"])
        d = dict(sc)
        if ps is not None:
            d.update({"evaluations": ps.evaluations, "states": ps.states, "transitions": ps.transitions,
                      "traces_validated_against_impl": ps.validated,
                      "distinct_nontrivial": len(ps.nontrivial), "cpu_s": round(ps.extra.get("cpu_s", 0), 1)})
        elif only_scopes:
            d["skipped"] = True
        scopes_out.append(d)
    exhaustive = not total.caps and not only_scopes
    cov = {
        "evaluations": total.evaluations,
        "distinct_nontrivial": len(total.nontrivial),
        "rule": mod.RULE,
        "samples": samples if samples else ["(no samples recorded)"],
        "states": max(total.states, 1),
        "transitions": max(total.transitions, 1),
        "traces_validated_against_impl": total.validated,
        "exhaustive": exhaustive,
        "caps_hit": sorted(set(total.caps)),
        "scopes": scopes_out,
        "bounds": plan.get("bounds", {}),
        "coverage_table": {k: total.cov[k] for k in sorted(total.cov)},
        "extra": {k: (round(v, 2) if isinstance(v, float) else v) for k, v in sorted(total.extra.items())},
        "known_findings_reproduced": [
            {"id": k, "cases": v[1], "example": v[2]["case"] if v[2] else None} for k, v in known_hit.items()],
        "violation_signatures": {s: total.viol_counts[s] for s in unknown},
        "workers": nproc,
        "repo": REPO,
    }
    ev = {
        "property_id": prop,
        "tier": tier,
        "seed": seed,
        "level": "model_checking",
        "coverage": cov,
        "assumptions": list(mod.ASSUMPTIONS),
        "wall_s": round(wall, 2),
        "violations": sum(total.viol_counts[s] for s in unknown),
    }
    evdir = os.environ.get("VERIF_EVIDENCE_DIR") or os.path.join(VERIF, "evidence")   # redirected only by tools/seeded_eval.py
    os.makedirs(evdir, exist_ok=True)
    evp = os.path.join(evdir, prop + ".json")
    with open(evp + ".tmp", "w") as f:
        json.dump(ev, f, indent=1, default=repr, sort_keys=False)
        f.write("\n")
    os.replace(evp + ".tmp", evp)

    # ---- verdict
    print("property=%s tier=%s seed=%d evaluations=%d states=%d transitions=%d validated=%d distinct_nontrivial=%d "
          "exhaustive=%s wall=%.1fs" % (prop, tier, seed, total.evaluations, total.states, total.transitions,
                                        total.validated, len(total.nontrivial), exhaustive, wall))
    for kid, (e, n, v) in known_hit.items():
        print("KNOWN-FINDING: property=%s %s [%s; %d case(s) this run, e.g. %s]" % (
            prop, e["what"], kid, n, json.dumps(v["case"], default=repr)[:160]))
    if unknown:
        for sig in unknown:
            path = write_replay(prop, sig, total.viol[sig][0], modname)
            print("VIOLATION property=%s replay=%s" % (prop, path))
            print("  signature: %s   (%d case(s))" % (sig, total.viol_counts[sig]))
            print("  first case: %s" % json.dumps(total.viol[sig][0], default=repr)[:600])
        return 1
    return 0


def run_replay(path):
    with open(path) as f:
        rec = json.load(f)
    bind_repo()
    import importlib
    mod = importlib.import_module(rec["module"])
    if hasattr(mod, "worker_init"):
        mod.worker_init()
    viols = mod.replay(rec["case"])
    if not viols and rec.get("prelude_turn") is not None and getattr(mod, "PRELUDE", True):
        # the case was first met right after the shard's dirty-history prelude (mc/prelude.py): replay it in that state
        from mc import prelude
        if hasattr(mod, "worker_init"):
            mod.worker_init()
        prelude.dirty(rec["prelude_turn"])
        viols = mod.replay(rec["case"])
        if viols:
            print("(reproduced only after the dirty-history prelude, turn %d: the failure depends on earlier failing calls)" % rec["prelude_turn"])
    if viols:
        for sig, detail in viols:
            print("REPRODUCED property=%s signature=%s\n  %s" % (rec["property"], sig, detail))
        print("VIOLATION property=%s replay=%s" % (rec["property"], path))
        return 1
    print("replay of %s: property holds on this tree for the recorded case" % path)
    return 0
