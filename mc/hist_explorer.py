"""E3 - explicit-state exploration of API-call histories on the real module state of the selfies package.

Pieces:
  StateWalker   finds every piece of module-level mutable state of every selfies.* module of the *current* tree
                (module attributes, class attributes, function defaults, lru_caches incl. property getters)
  snapshot / restore   identity-preserving restore of that state (containers refilled in place, attributes
                re-bound to their original objects, every lru_cache cleared)  ~ tens of microseconds
  fingerprint   canonical structural hash of all of it (+ lru_cache contents by destructive probing)
  bfs           breadth-first search over call histories with the oracle evaluated in every state
"""
import collections
import functools
import hashlib
import sys
import types

CONTAINERS = (dict, list, set, collections.deque, bytearray)
LEAF = (str, bytes, int, float, bool, type(None), complex, frozenset, range)


def selfies_modules():
    return [m for n, m in sorted(sys.modules.items())
            if m is not None and (n == "selfies" or n.startswith("selfies."))]


def _is_lru(o):
    return hasattr(o, "cache_clear") and hasattr(o, "cache_info") and callable(o)


class StateWalker:
    def __init__(self):
        self.mods = selfies_modules()
        self.bindings = []      # (owner, name, original object)  for module attrs and class attrs
        self.containers = {}    # id -> (object, shallow content copy)
        self.lrus = {}          # id -> (label, lru object)
        self.labels = {}        # id(container) -> label (first path found)
        self._scan()

    # ---- discovery
    def _note_container(self, o, label, depth=0):
        if isinstance(o, CONTAINERS):
            if id(o) in self.containers:
                return
            self.containers[id(o)] = (o, self._shallow(o))
            self.labels[id(o)] = label
            if depth < 6:
                it = o.values() if isinstance(o, dict) else o
                for k, v in enumerate(list(it)):
                    self._note_container(v, "%s[%d]" % (label, k), depth + 1)
        elif isinstance(o, tuple) and depth < 6:
            for k, v in enumerate(o):
                self._note_container(v, "%s(%d)" % (label, k), depth + 1)
        elif isinstance(o, functools.partial) and depth < 6:
            for k, v in enumerate(list(o.args) + list((o.keywords or {}).values())):
                self._note_container(v, "%s<partial %d>" % (label, k), depth + 1)

    @staticmethod
    def _shallow(o):
        if isinstance(o, dict):
            return dict(o)
        if isinstance(o, set):
            return set(o)
        if isinstance(o, collections.deque):
            return list(o)
        return list(o)

    def _note_value(self, owner, name, v, label):
        if isinstance(v, types.ModuleType):
            return
        if _is_lru(v):
            self.lrus.setdefault(id(v), (label, v))
        f = v
        if isinstance(f, property):
            f = f.fget
            if _is_lru(f):
                self.lrus.setdefault(id(f), (label + ".fget", f))
        if isinstance(f, (staticmethod, classmethod)):
            f = f.__func__
        f = getattr(f, "__wrapped__", f)
        if isinstance(f, types.FunctionType):
            for k, d in enumerate(f.__defaults__ or ()):
                self._note_container(d, "%s.__defaults__[%d]" % (label, k))
            for k, d in (f.__kwdefaults__ or {}).items():
                self._note_container(d, "%s.__kwdefaults__[%s]" % (label, k))
            return
        if isinstance(v, type):
            if getattr(v, "__module__", "").startswith("selfies"):
                for an, av in list(vars(v).items()):
                    if an.startswith("__") and an.endswith("__"):
                        continue
                    self._note_value(v, an, av, "%s.%s" % (label, an))
                    if isinstance(av, CONTAINERS + LEAF + (tuple,)):
                        self.bindings.append((v, an, av))
            return
        self._note_container(v, label)

    def _scan(self):
        for m in self.mods:
            for name, v in sorted(vars(m).items()):
                if name.startswith("__") and name.endswith("__"):
                    continue
                label = "%s.%s" % (m.__name__, name)
                self.bindings.append((m, name, v))
                self._note_value(m, name, v, label)

    # ---- restore
    def restore(self):
        for owner, name, v in self.bindings:
            if isinstance(owner, types.ModuleType):
                if owner.__dict__.get(name, self) is not v:
                    setattr(owner, name, v)
            else:
                if owner.__dict__.get(name, self) is not v:
                    setattr(owner, name, v)
        for o, content in self.containers.values():
            if isinstance(o, dict):
                if o != content or list(o) != list(content):
                    o.clear()
                    o.update(content)
            elif isinstance(o, set):
                if o != content:
                    o.clear()
                    o.update(content)
            elif isinstance(o, collections.deque):
                o.clear()
                o.extend(content)
            else:
                o[:] = content
        for _, f in self.lrus.values():
            f.cache_clear()
        # attributes that did not exist at snapshot time (module-level names created by a call)
        for m in self.mods:
            known = self._known_names.get(m.__name__)
            if known is not None and len(vars(m)) != len(known):
                for name in [n for n in vars(m) if n not in known]:
                    delattr(m, name)

    def freeze_names(self):
        self._known_names = {m.__name__: set(vars(m)) for m in self.mods}

    # ---- fingerprint
    def canon(self, o, depth=0):
        if isinstance(o, LEAF):
            return repr(o)
        if depth > 8:
            return "<deep>"
        if isinstance(o, dict):
            return ("d", tuple((self.canon(k, depth + 1), self.canon(v, depth + 1)) for k, v in o.items()))
        if isinstance(o, (set, frozenset)):
            return ("s", tuple(sorted(repr(self.canon(x, depth + 1)) for x in o)))
        if isinstance(o, (list, tuple, collections.deque)):
            return ("l", tuple(self.canon(x, depth + 1) for x in o))
        if isinstance(o, functools.partial):
            return ("p", getattr(o.func, "__qualname__", repr(o.func)),
                    tuple(self.canon(a, depth + 1) for a in o.args),
                    tuple(sorted((k, self.canon(v, depth + 1)) for k, v in (o.keywords or {}).items())))
        if isinstance(o, (types.FunctionType, types.BuiltinFunctionType, type, types.ModuleType)) or _is_lru(o):
            return ("ref", getattr(o, "__module__", "?"), getattr(o, "__qualname__", getattr(o, "__name__", "?")))
        if hasattr(o, "pattern") and hasattr(o, "flags"):
            return ("re", o.pattern, o.flags)
        d = getattr(o, "__dict__", None)
        if d is not None:
            return ("o", type(o).__qualname__, self.canon(d, depth + 1))
        sl = getattr(type(o), "__slots__", None)
        if sl:
            return ("o", type(o).__qualname__, tuple((s, self.canon(getattr(o, s, None), depth + 1)) for s in sl))
        return ("?", type(o).__qualname__)

    def structure(self, only_module=None):
        parts = []
        for m in self.mods:
            if only_module and m.__name__ != only_module:
                continue
            for name, v in sorted(vars(m).items()):
                if name.startswith("__") and name.endswith("__"):
                    continue
                if isinstance(v, types.ModuleType):
                    continue
                parts.append((m.__name__, name, self.canon(v)))
                if isinstance(v, type) and getattr(v, "__module__", "").startswith("selfies"):
                    for an, av in sorted(vars(v).items()):
                        if an.startswith("__") and an.endswith("__"):
                            continue
                        if isinstance(av, CONTAINERS + LEAF + (tuple,)):
                            parts.append((m.__name__, name + "." + an, self.canon(av)))
        # identity relations between module-level containers (aliasing is state: `current is preset`)
        ids = {}
        for m in self.mods:
            for name, v in sorted(vars(m).items()):
                if isinstance(v, CONTAINERS):
                    ids.setdefault(id(v), []).append("%s.%s" % (m.__name__, name))
                    if isinstance(v, dict):
                        for k, vv in v.items():
                            if isinstance(vv, CONTAINERS):
                                ids.setdefault(id(vv), []).append("%s.%s[%r]" % (m.__name__, name, k))
        parts.append(("aliases", tuple(sorted(tuple(v) for v in ids.values() if len(v) > 1))))
        return parts


_W = None


def walker():
    """built lazily, after `import selfies` and after every code path was warmed (so lazily created
    module state exists); call fresh_snapshot() at a moment the library is in its import-time state"""
    global _W
    if _W is None:
        import selfies  # noqa
        _W = StateWalker()
        _W.freeze_names()
    return _W


def restore():
    walker().restore()


def _h(parts):
    return hashlib.blake2b(repr(parts).encode("utf8", "backslashreplace"), digest_size=12).hexdigest()


def config_fingerprint():
    """non-destructive: structure of selfies.bond_constraints' module-level tables"""
    return _h(walker().structure("selfies.bond_constraints"))


def lru_probe(keys_by_name):
    """destructive probing of lru_cache contents: for each named cache and each key of the finite universe,
    is it present (a hit) and what is the cached value.  Only call on a throw-away replay."""
    w = walker()
    out = []
    for _, (label, f) in sorted(w.lrus.items(), key=lambda kv: kv[1][0]):
        info = f.cache_info()
        keys = None
        for pat, ks in keys_by_name.items():
            if pat in label:
                keys = ks
        if keys is None:
            out.append((label, "size", info.currsize))
            continue
        ent = []
        for k in keys:
            h0 = f.cache_info().hits
            try:
                v = f(*k)
            except Exception as e:
                v = "raises " + type(e).__name__
            ent.append((k, f.cache_info().hits > h0, w.canon(v)))
        out.append((label, tuple(ent)))
    return out


def fingerprint(keys_by_name=None):
    w = walker()
    parts = w.structure()
    if keys_by_name is not None:
        parts = parts + [("lru", lru_probe(keys_by_name))]
    return _h(parts)
