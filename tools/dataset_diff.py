#!/venv/bin/python
"""Differential regression check for fix: commits: every molecule of every dataset shipped with the repository's tests is
round-tripped on the base tree and on the current tree; the set of failing molecules must not grow, and the SELFIES
produced for molecules that pass on both must be identical unless listed as an intended change.
usage: tools/dataset_diff.py <base_tree> <new_tree>      (trees are directories containing the selfies package)
"""
import json, os, subprocess, sys, glob
from concurrent.futures import ThreadPoolExecutor

WORKER = r'''
import sys, json
sys.path.insert(0, sys.argv[1])
import pandas as pd
from rdkit import Chem, RDLogger
RDLogger.DisableLog("rdApp.*")
import selfies as sf
assert sf.__file__.startswith(sys.argv[1]), sf.__file__
c = sf.get_preset_constraints("hypervalent"); c.update({"P": 7, "P-1": 8, "P+1": 6, "?": 12}); sf.set_semantic_constraints(c)
lo, hi = int(sys.argv[3]), int(sys.argv[4])
df = pd.read_csv(sys.argv[2])
col = "smiles" if "smiles" in df.columns else df.columns[0]
out = {}
for s in df[col][lo:hi]:
    s = str(s).strip()
    if "*" in s or Chem.MolFromSmiles(s) is None:
        continue
    try:
        x = sf.encoder(s, strict=True); y = sf.decoder(x)
    except (sf.EncoderError, sf.DecoderError) as e:
        out[s] = ["ERR", type(e).__name__]; continue
    except Exception as e:
        out[s] = ["ESC", type(e).__name__]; continue
    try:
        same = Chem.CanonSmiles(s) == Chem.CanonSmiles(y)
    except Exception:
        same = False
    out[s] = ["OK" if same else "DIFF", x]
print(json.dumps(out))
'''

def run(tree, csv, lo, hi):
    p = subprocess.run(["/venv/bin/python", "-B", "-c", WORKER, tree, csv, str(lo), str(hi)], capture_output=True, text=True)
    if p.returncode:
        raise RuntimeError(p.stderr[-500:])
    return json.loads(p.stdout)

def main():
    base, new = sys.argv[1], sys.argv[2]
    files = sorted(glob.glob("/repo/tests/test_sets/**/*.csv", recursive=True))
    jobs = []
    for f in files:
        n = sum(1 for _ in open(f)) - 1
        if n <= 0:
            continue
        step = 6000
        for lo in range(0, n, step):
            jobs.append((f, lo, lo + step))
    worse, better, changed, total = [], [], [], 0
    def do(j):
        return j, run(base, *j), run(new, *j)
    with ThreadPoolExecutor(8) as ex:
        for j, a, b in ex.map(do, jobs):
            for s in a:
                total += 1
                ka, kb = a[s][0], b.get(s, ["MISSING"])[0]
                if ka == "OK" and kb != "OK":
                    worse.append((s, a[s], b.get(s)))
                elif ka != "OK" and kb == "OK":
                    better.append((s, a[s], b.get(s)))
                elif ka == "OK" and a[s][1] != b[s][1]:
                    changed.append((s, a[s][1], b[s][1]))
    print("molecules compared: %d   newly failing: %d   newly passing: %d   passing with a different SELFIES: %d"
          % (total, len(worse), len(better), len(changed)))
    for w in worse[:10]: print("  WORSE", w)
    for w in better[:5]: print("  BETTER", w)
    for w in changed[:5]: print("  CHANGED", w)
    sys.exit(1 if worse else 0)
main()
