#!/bin/bash
# runs every quick check once per given seed (default 0 1 2 3) and prints one line per run; exit 1 if any is not silent
cd "$(dirname "$0")/.." || exit 2
seeds="${@:-0 1 2 3}"
bad=0
for seed in $seeds; do
  for i in $(seq -w 1 19); do
    p="C$i"
    t0=$(date +%s)
    out=$(VERIF_SEED=$seed ./check $p --tier quick 2>&1); rc=$?
    t1=$(date +%s)
    nviol=$(echo "$out" | grep -c '^VIOLATION')
    echo "seed=$seed $p rc=$rc violations=$nviol wall=$((t1-t0))s  $(echo "$out" | grep -o 'evaluations=[0-9]*')"
    if [ $rc -ne 0 ]; then bad=1; echo "$out" | grep -A3 '^VIOLATION\|HARNESS' | cut -c1-300; fi
  done
done
exit $bad
