ENGINES = [
    {"name": "E1 string explorer", "path": "mc/enum_strings.py",
     "serves_properties": ["C01", "C02", "C07", "C08", "C13", "C14", "C15", "C16", "C18"],
     "kind_free_text": "bounded-exhaustive enumeration of token strings: the prefix tree over an alphabet is the transition system (state = prefix, transition = append a token); sharded over 16 long-lived worker processes; parametric families enumerated completely"},
    {"name": "E2 written-form SMILES generator", "path": "mc/enum_smiles.py", "serves_properties": ["C03", "C04", "C10"],
     "kind_free_text": "complete generation of SMILES written forms: ordered tree shapes x ring-bond sets x ring-digit orders x label schemes x spelling palettes (G1), all DFS spellings of a graph (G2), non-standard spellings the encoder accepts"},
    {"name": "E3 history explorer", "path": "mc/hist_explorer.py", "serves_properties": ["C08"],
     "kind_free_text": "generic walker over all module-level mutable state of the selfies package: identity-preserving restore and structural fingerprint (explicit-state BFS over API-call histories)"},
]
NOTES = ("All checks: ./check <id> --tier quick|thorough (env VERIF_SEED, VERIF_TIER honoured). Evidence is rewritten "
         "by every run. known_findings.json lists genuine defects recorded instead of repaired (status known) and "
         "repaired by fix: commits in /repo (status fixed, suppress nothing).")

def _c(id, engine, technique, text, note, ref=None):
    return {"id": id, "engine": engine, "technique": technique, "text": text, "note": note,
            "design_ref": ref or ("DESIGN.md section 2 " + id)}

CHECKS = [
    _c("C01", "E1 string explorer",
       "bounded-exhaustive enumeration of SELFIES strings (all strings <= L over valence-stressing alphabets x 6 tables; whole robust alphabet <= 3/4 symbols with RDKit; complete parametric families up to 130 rings / depth 60 / 50 fragments), every output re-read by an independent SMILES reader",
       "Coverage statement: no string of <= L symbols over the listed alphabets under the listed tables, and no member of the listed families, decodes to a syntactically invalid or over-valent SMILES. The decoder is a compositional recursive-descent translator, so short strings reach every rule x state combination; the unbounded dimensions (ring count, rings open at once, nesting, fragments) are covered by complete families.",
       "Trusted: independent reader mc/oracles/smiread.py, capacity lookup from get_semantic_constraints() by an independent key builder, RDKit for the one clause that names a sanitizer. Known finding: ring label %100 for the 100th ring bond."),
    _c("C02", "E1 string explorer",
       "bounded-exhaustive enumeration of SELFIES strings with the decoder compared, string by string, against an independent executable model of docs/source/derivation.rst (model traces validated against the implementation)",
       "Every string of <= L symbols over five alphabets (core, stereo, state, outside-grammar, deep) under six tables plus every index-digit tuple in templated contexts is decoded by the implementation and by the reference model: accept/reject must coincide and atoms, bonds, orders, stereo marks and written neighbour order must be equal. Evidence carries the rule x state table actually hit.",
       "Trusted: reference model mc/oracles/refmodel.py (decisions frozen where the docs are silent: DESIGN.md section 4.2) and the independent reader. Ring numbering / spelling choices of the writer are not compared."),
    _c("C03", "E2 written-form SMILES generator",
       "bounded-exhaustive enumeration of SMILES written forms (all tree shapes x ring sets x digit orders x 4 label schemes up to 7/8 atoms and 2/3 rings; bond-symbol, atom-spelling, lenient-spelling and multi-fragment palettes), round trip compared index by index by an independent reader",
       "For every generated written form the encoder accepts under the table, O1(input) and O1(decoder(encoder(input))) have the same atoms index by index (element, isotope, charge, H count), the same bonded pairs and the same order on every non-aromatic bond. Spellings are the quantified dimension, so they are enumerated completely per shape.",
       "Trusted: independent reader. The chirality tag is deliberately not compared here (C04 judges it by parity). Rejections under the table are counted, not judged (C06)."),
    _c("C04", "E2 written-form SMILES generator",
       "bounded-exhaustive enumeration of stereo-decorated written forms (one centre at every position x 4 tags, two centres, all ring-digit orders and label schemes, lenient spellings; '/' '\\' on every edge and ring-bond end), parity and mark oracle from an independent reader",
       "For every decorated form: each tagged centre keeps its handedness (tag unchanged iff the permutation between written neighbour sequences is even) and each mark is found on the same bond with the same direction. Evidence reports how many centres had their tag flipped vs kept, so the parity logic is exercised both ways.",
       "Trusted: independent reader's written neighbour sequence. Centres with duplicate neighbour entries (H2) are skipped."),
    _c("C07", "E1 string explorer",
       "enumeration of a table family (3 presets, 21-key palette x 6 capacities x 3 default capacities, two-key tables) x bounded-exhaustive strings over the robust alphabet returned for each accepted table",
       "For every table the setter accepts: membership clauses of the alphabet, every symbol decodes alone, every string of <= 2 symbols over the whole alphabet and <= 4/5 over atom symbols + structural representatives decodes to a molecule valid under that table.",
       "Validity judged as in C01. A table is accepted when the setter does not raise; the key palette includes malformed keys so the accept/reject boundary of the setter is exercised."),
    _c("C08", "E1 string explorer",
       "bounded-exhaustive enumeration of arbitrary text (all concatenations of <= 4/5 pieces from two 30/24-piece alphabets of malformed and well-formed material x 4 flag combinations) and complete depth/length/fragment families; outcome classes checked, watchdog for termination",
       "No enumerated input makes decoder raise anything but DecoderError, return a wrong type, hang beyond the watchdog, or change the constraint state. Depth 1..1200 is enumerated completely because the recursion limit is a numeric cliff.",
       "Non-termination is only observable as a watchdog expiry (20 s + 1 s / 100 chars). Constraint state observed via the public getter after every call and a structural fingerprint of selfies.bond_constraints per shard."),
    _c("C10", "E2 written-form SMILES generator",
       "bounded-exhaustive enumeration of SMILES written forms and of the complete atom-spelling grid (isotope x element x chirality x H x charge spellings), ring spans / branch lengths 1..300 and 4088..4096 (all 1..4096 thorough); encode, decode, re-encode",
       "For every accepted input: output well formed, decodable under the same table, equivalent spellings collapse to one symbol, and encoder(decoder(x)) == x.",
       "Differential (implementation against itself) plus the independent tokeniser; equivalence classes of spellings computed independently."),
    _c("C13", "E1 string explorer",
       "bounded-exhaustive enumeration: every string <= 5/6 symbols x every subset of [nop] insertion positions (2^(n+1) variants) + doubled [nop] + padding round trip, differential against the unpadded outcome",
       "For every enumerated string and every set of insertion positions the decoder's outcome is identical; the padding path of selfies_to_encoding/encoding_to_selfies is covered for every string.",
       "Differential oracle (implementation on the unpadded string). Exceptions compared by class."),
    _c("C14", "E1 string explorer",
       "bounded-exhaustive enumeration of symbol-text sequences (<= 5/6 texts from two 9-text alphabets x every placement of single dots), all <= 3-string collections, and all encoder outputs reachable from <= 6/7 SMILES tokens",
       "split_selfies, len_selfies and get_alphabet_from_selfies agree with an independent tokeniser on every enumerated well-formed string and collection; every encoder output is well formed and the reference model fed with split_selfies' tokens equals the decoder.",
       "Trusted: the regular-expression tokeniser in mc/oracles/misc.py."),
    _c("C15", "E1 string explorer",
       "exhaustive small-scope enumeration: all 325 non-empty vocabularies over 5 symbols x all strings <= 3/4 symbols x pads -1..5 x 5 enc_type values, and all ordered pairs as batches, against a ten-line reference",
       "Every combination of the finite grid is executed on the four encoding functions and compared with the reference (or must raise).",
       "Reference semantics written from the property statement; any exception class counts as 'raises'."),
    _c("C16", "E1 string explorer",
       "bounded-exhaustive enumeration of all index-symbol tuples and all n < 16^4 against an independent positional code, on the real functions and through encoder/decoder",
       "Every n < 16^4 (16^5 thorough) and every tuple of <= 3 (4) digit tokens over the 16 index symbols, two non-index symbols and 'missing' is evaluated on the implementation and compared with an independent base-16 code; through the public API every tuple is placed behind [RingL]/[BranchL] and the realised ring target / branch length is read back from the output by an independent SMILES reader, and every ring distance / branch length up to 4099 is encoded and decoded back. This is the whole domain the property quantifies over below 16^3, so exhaustive enumeration is the right level.",
       "Trusted: the independent reader and the 16-entry table transcribed from docs/source/derivation.rst. Quick tier restricts 3-symbol API tuples with Q >= 512 and encoder distances > 600 to a fixed sub-grid (stated in evidence); thorough covers all."),
    _c("C18", "E1 string explorer",
       "bounded-exhaustive enumeration of mixed modern/legacy strings (<= 4/5 symbols over two 16/17-symbol alphabets, full L,M grid, 12600-spelling legacy atom grid) against an independent moderniser and the reference model",
       "For every enumerated string: compatible=True equals decoding the independently modernised string, modern-only strings are unaffected by the flag, and without the flag the reference model on the raw string decides accept/reject and the molecule.",
       "Trusted: mc/oracles/legacy.py written from CHANGELOG v2.0.0; clause (a) is differential against the implementation on the modernised string."),
]
_PENDING = "check not built yet in this revision of /verif (planned: see DESIGN.md section 2); not claimed until its command exists"
NOT_APPLICABLE = [{"property_id": "C%02d" % i, "reason": _PENDING} for i in range(1, 20) if "C%02d" % i not in {c["id"] for c in CHECKS}]
