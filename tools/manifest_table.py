ENGINES = [
    {"name": "E1 string explorer", "path": "mc/enum_strings.py", "serves_properties": ["C16"],
     "kind_free_text": "bounded-exhaustive enumeration of symbol/tuple strings, prefix tree as transition system, sharded over 16 processes"},
]
NOTES = "All checks: ./check <id> --tier quick|thorough (env VERIF_SEED, VERIF_TIER honoured). Evidence is rewritten by every run. known_findings.json lists genuine defects recorded instead of repaired."
CHECKS = [
    {"id": "C16", "engine": "E1 string explorer",
     "technique": "bounded-exhaustive enumeration of all index-symbol tuples and all n < 16^4 against an independent positional code, on the real functions and through encoder/decoder",
     "text": "Every n < 16^4 (16^5 thorough) and every tuple of <= 3 (4) digit tokens over the 16 index symbols, two non-index symbols and 'missing' is evaluated on the implementation and compared with an independent base-16 code; through the public API every tuple is placed behind [RingL]/[BranchL] and the realised ring target / branch length is read back from the output by an independent SMILES reader, and every ring distance / branch length up to 4099 is encoded and decoded back. This is the whole domain the property quantifies over below 16^3, so exhaustive enumeration is the right level.",
     "design_ref": "DESIGN.md §2 C16",
     "note": "Trusted: the independent reader (mc/oracles/smiread.py) and the 16-entry table transcribed from docs/source/derivation.rst. Quick tier restricts 3-symbol API tuples with Q >= 512 and encoder distances > 600 to a fixed sub-grid (stated in evidence); thorough covers all."},
]
_PENDING = "check not built yet in this revision of /verif (planned: see DESIGN.md §2); not claimed until its command exists"
NOT_APPLICABLE = [{"property_id": "C%02d" % i, "reason": _PENDING} for i in range(1, 20) if "C%02d" % i not in {c["id"] for c in CHECKS}]
