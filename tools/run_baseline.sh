#!/bin/bash
# runs the repository's pinned test suite on a tree (default /repo) and checks the 51 stable tests still pass
tree="${1:-/repo}"
out="$(mktemp /tmp/junit.XXXXXX.xml)"
cd "$tree" && env -u SELFIES_VERIF /venv/bin/python -m pytest -q -p no:cacheprovider --timeout=900 --continue-on-collection-errors --junitxml="$out" >/dev/null 2>&1
/venv/bin/python - "$out" <<'PY'
import sys, json, xml.etree.ElementTree as ET
base = json.load(open("/root/.vp/BASELINE.json"))
want = set(base["stable_pass"])
got = {}
for tc in ET.parse(sys.argv[1]).getroot().iter("testcase"):
    name = "%s::%s" % (tc.get("classname"), tc.get("name"))
    bad = any(ch.tag in ("failure", "error", "skipped") for ch in tc)
    got[name] = not bad
missing = sorted(n for n in want if not got.get(n, False))
print("baseline: %d/%d stable tests pass" % (len(want) - len(missing), len(want)))
for m in missing[:10]:
    print("  NOT PASSING:", m)
sys.exit(1 if missing else 0)
PY
rc=$?
rm -f "$out"
exit $rc
