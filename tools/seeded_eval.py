#!/usr/bin/env python3
"""Evaluate a seeded change: copy /repo's selfies package to a scratch dir outside /repo and /verif, apply
seeded/<id>/patch.diff, run the listed checks (default: all 19, quick tier) with VERIF_REPO pointing at the copy, and
record which checks report a violation.  The scratch copy is removed afterwards.
usage: tools/seeded_eval.py <seeded-id> [Cnn ...] [--tier quick|thorough]
"""
import json, os, shutil, subprocess, sys, tempfile, time

VERIF = os.path.dirname(os.path.dirname(os.path.abspath(__file__)))

def main():
    args = sys.argv[1:]
    tier = "quick"
    if "--tier" in args:
        i = args.index("--tier"); tier = args[i + 1]; del args[i:i + 2]
    sid = args[0]
    props = args[1:] or ["C%02d" % i for i in range(1, 20)]
    sdir = os.path.join(VERIF, "seeded", sid)
    scratch = tempfile.mkdtemp(prefix="seeded-", dir="/tmp")
    try:
        base = "HEAD"
        try:        # a few early changes were written before later fix: commits touched the same lines
            base = json.load(open(os.path.join(sdir, "meta.json"))).get("applies_to_repo_commit", "HEAD")
        except Exception:
            pass
        subprocess.run(["git", "-C", "/repo", "worktree", "add", "-q", "--detach", scratch + "/wt", base], check=True)
        wt = scratch + "/wt"
        subprocess.run(["git", "-C", wt, "apply", os.path.join(sdir, "patch.diff")], check=True)
        res = {}
        for p in props:
            t0 = time.time()
            env = dict(os.environ, VERIF_REPO=wt, VERIF_TIER=tier, VERIF_EVIDENCE_DIR=scratch + "/evidence",
                       VERIF_REPLAY_DIR=scratch + "/replays")
            pr = subprocess.run([os.path.join(VERIF, "check"), p, "--tier", tier], capture_output=True, text=True, env=env, cwd=VERIF)
            viol = [l for l in pr.stdout.splitlines() if l.startswith("VIOLATION")]
            sigs = [l.strip() for l in pr.stdout.splitlines() if l.strip().startswith("signature:")]
            res[p] = {"exit": pr.returncode, "violations": len(viol), "signatures": sigs[:6], "wall_s": round(time.time() - t0, 1)}
            print(p, "exit", pr.returncode, sigs[:3], flush=True)
            if pr.returncode not in (0, 1):
                res[p]["stderr"] = pr.stderr[-600:]
        evp = os.path.join(sdir, "eval_%s.json" % tier)
        if os.path.exists(evp):          # merge with earlier partial evaluations (latest result per check wins)
            old = json.load(open(evp)).get("results", {})
            old.update(res)
            res = old
        out = {"seeded": sid, "tier": tier, "caught_by": sorted(p for p, v in res.items() if v["exit"] == 1), "results": res}
        with open(evp, "w") as f:
            json.dump(out, f, indent=1)
        print("caught by:", out["caught_by"])
    finally:
        subprocess.run(["git", "-C", "/repo", "worktree", "remove", "--force", scratch + "/wt"])
        shutil.rmtree(scratch, ignore_errors=True)

main()
