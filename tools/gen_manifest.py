#!/usr/bin/env python3
"""Regenerates MANIFEST.json from the table below (keeps it valid by construction)."""
import json, os, sys
HERE = os.path.dirname(os.path.dirname(os.path.abspath(__file__)))
sys.path.insert(0, HERE)
from tools.manifest_table import CHECKS, NOT_APPLICABLE, ENGINES, NOTES

def main():
    checks = []
    for c in CHECKS:
        pid = c["id"]
        checks.append({
            "property_id": pid,
            "quick_cmd": "./check %s --tier quick" % pid,
            "thorough_cmd": "./check %s --tier thorough" % pid,
            "evidence_file": "/verif/evidence/%s.json" % pid,
            "replay_cmd_template": "./check --replay {path}",
            "engine": c["engine"],
            "level_claimed": {"category": "model_checking", "text": c["text"], "design_ref": c["design_ref"]},
            "level_note": c["note"],
            "technique": c["technique"],
        })
    m = {
        "version": 1,
        "setup_cmd": "cd /verif && /venv/bin/python -B -c \"import sys; sys.path.insert(0,'/repo'); import selfies, mc.runner; print('ok', selfies.__file__)\"",
        "hooks": {
            "guard": "SELFIES_VERIF",
            "enable": "no source hooks are needed: the checks import the working tree of /repo directly (pure Python, /repo first on sys.path, fresh byte-code prefix); the guard name is reserved and exported by ./check",
            "baseline_off_cmd": "cd /repo && env -u SELFIES_VERIF /venv/bin/python -m pytest -ra -q -p no:cacheprovider --timeout=900 --continue-on-collection-errors",
            "source_commits": [],
            "add_only": True,
        },
        "engines": ENGINES,
        "checks": checks,
        "notes": NOTES,
        "not_applicable": NOT_APPLICABLE,
    }
    with open(os.path.join(HERE, "MANIFEST.json"), "w") as f:
        json.dump(m, f, indent=1)
        f.write("\n")

main()
