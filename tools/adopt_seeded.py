#!/usr/bin/env python3
"""Adopt a sub-agent's change as /verif/seeded/<id>/: extract the diff from its scratch worktree, then confirm in a
*fresh* scratch worktree of /repo that (a) the demo fails with the patch and passes without it, (b) the pinned suite
still passes with the patch.  usage: tools/adopt_seeded.py <seeded-id> <agent-worktree> <property-id>"""
import json, os, shutil, subprocess, sys, tempfile

VERIF = os.path.dirname(os.path.dirname(os.path.abspath(__file__)))

def sh(cmd, cwd=None, **kw):
    return subprocess.run(cmd, cwd=cwd, capture_output=True, text=True, **kw)

def main():
    sid, src, prop = sys.argv[1:4]
    d = os.path.join(VERIF, "seeded", sid)
    os.makedirs(d, exist_ok=True)
    diff = sh(["git", "diff", "--", "selfies"], cwd=src).stdout
    if not diff.strip():
        raise SystemExit("no diff under selfies/ in " + src)
    open(os.path.join(d, "patch.diff"), "w").write(diff)
    for f in ("demo.py", "NOTE.md"):
        if os.path.exists(os.path.join(src, f)):
            shutil.copy(os.path.join(src, f), os.path.join(d, f))
    scratch = tempfile.mkdtemp(prefix="adopt-", dir="/tmp")
    wt = scratch + "/wt"
    meta = {"id": sid, "property": prop, "source": "fresh sub-agent given only the property text and a scratch worktree"}
    try:
        sh(["git", "-C", "/repo", "worktree", "add", "-q", "--detach", wt, "HEAD"])
        shutil.copy(os.path.join(d, "demo.py"), wt + "/demo.py")
        r0 = sh(["/venv/bin/python", "-B", "demo.py"], cwd=wt, timeout=900)
        ap = sh(["git", "apply", os.path.join(d, "patch.diff")], cwd=wt)
        if ap.returncode:
            raise SystemExit("patch does not apply to /repo HEAD: " + ap.stderr)
        r1 = sh(["/venv/bin/python", "-B", "demo.py"], cwd=wt, timeout=900)
        os.remove(wt + "/demo.py")
        bl = sh([os.path.join(VERIF, "tools", "run_baseline.sh"), wt])
        bad = [l.strip() for l in bl.stdout.splitlines() if "NOT PASSING" in l and "test_path12" not in l]
        meta.update({
            "demo_exit_without_patch": r0.returncode, "demo_exit_with_patch": r1.returncode,
            "demo_output_with_patch": (r1.stdout + r1.stderr)[-800:],
            "suite_with_patch": bl.stdout.strip().splitlines()[0] if bl.stdout.strip() else bl.stderr[-200:],
            "suite_tests_not_passing_besides_flaky_test_path12": bad,
            "confirmed": (r0.returncode == 0 and r1.returncode != 0 and not bad),
            "ran": ["git -C /repo worktree add --detach <scratch> HEAD", "python demo.py  (exit %d)" % r0.returncode,
                    "git apply seeded/%s/patch.diff" % sid, "python demo.py  (exit %d)" % r1.returncode,
                    "tools/run_baseline.sh <scratch>  (pinned 51-test baseline, serial)"],
            "diff_lines": sum(1 for l in diff.splitlines() if l[:1] in "+-" and l[:3] not in ("+++", "---")),
        })
    finally:
        sh(["git", "-C", "/repo", "worktree", "remove", "--force", wt])
        shutil.rmtree(scratch, ignore_errors=True)
    old = {}
    mp = os.path.join(d, "meta.json")
    if os.path.exists(mp):
        old = json.load(open(mp))
    old.update(meta)
    json.dump(old, open(mp, "w"), indent=1)
    print(sid, "confirmed" if meta["confirmed"] else "NOT CONFIRMED", meta["suite_with_patch"], bad)

main()
