#!/bin/bash
# tools/process_seeded.sh <seeded-id> <agent-worktree> <Cnn> [more checks...]  : adopt, confirm, evaluate
cd "$(dirname "$0")/.." || exit 2
sid="$1"; src="$2"; prop="$3"; shift 3
python3 tools/adopt_seeded.py "$sid" "$src" "$prop" 2>&1 | tail -1
python3 tools/seeded_eval.py "$sid" "$prop" "$@" 2>&1 | tail -$(( $# + 2 ))
