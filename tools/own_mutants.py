#!/usr/bin/env python3
"""Planned mutation waves of DESIGN.md section 6: small textual mutants of /repo applied in scratch worktrees.
  tools/own_mutants.py baseline            run the pinned suite on every mutant (8 in parallel), record who survives
  tools/own_mutants.py check [name ...]    run the targeted checks (quick) on each surviving mutant
Results are written to /verif/seeded/own_mutants.json.
"""
import json, os, shutil, subprocess, sys, tempfile
from concurrent.futures import ThreadPoolExecutor

VERIF = os.path.dirname(os.path.dirname(os.path.abspath(__file__)))
OUT = os.path.join(VERIF, "seeded", "own_mutants.json")

# name, file, old, new, properties expected to be broken
M = [
 ("branch-init-state", "selfies/grammar_rules.py", "branch_init_state = min(state - 1, branch_type)", "branch_init_state = min(state, branch_type)", ["C02", "C01"]),
 ("ring-target-floor", "selfies/decoder.py", "lidx = max(0, prev_atom.index - (Q + 1))", "lidx = max(1, prev_atom.index - (Q + 1)) if prev_atom.index > 1 else max(0, prev_atom.index - (Q + 1))", ["C02"]),
 ("ring-clip-one-end", "selfies/decoder.py", "order = min(order, lfree, rfree)", "order = min(order, lfree)", ["C01", "C02"]),
 ("ring-after-branches", "selfies/decoder.py", "a=lidx, a_stereo=lstereo, a_pos=rings_made[lidx],", "a=lidx, a_stereo=lstereo, a_pos=-1,", ["C02", "C04"]),
 ("percent-label-boundary", "selfies/utils/smiles_utils.py", "if rnum >= 10:", "if rnum > 10:", ["C01", "C02"]),
 ("capacity-drops-negative-charge", "selfies/bond_constraints.py", "    if charge != 0:\n        key += \"{:+}\".format(charge)", "    if charge > 0:\n        key += \"{:+}\".format(charge)", ["C06", "C01", "C02"]),
 ("capacity-forgets-H-above-2", "selfies/mol_graph.py", "bond_cap -= 0 if (self.h_count is None) else self.h_count", "bond_cap -= 0 if (self.h_count is None) else min(self.h_count, 2)", ["C01", "C06"]),
 ("strict-check-rounds", "selfies/encoder.py", "if bond_count > bond_cap:", "if bond_count > bond_cap + 1 and bond_cap > 6 or bond_count > bond_cap and bond_cap <= 6:", ["C06"]),
 ("setter-assigns-before-validating", "selfies/bond_constraints.py", "    elif isinstance(bond_constraints, dict):\n", "    elif isinstance(bond_constraints, dict):\n        _current_constraints = dict(bond_constraints)\n", ["C12", "C11"]),
 ("preset-getter-live-dict", "selfies/bond_constraints.py", "    return dict(_PRESET_CONSTRAINTS[name])", "    return _PRESET_CONSTRAINTS[name]", ["C12"]),
 ("setter-keeps-passed-dict", "selfies/bond_constraints.py", "        _current_constraints = dict(bond_constraints)\n\n    else:", "        _current_constraints = bond_constraints\n\n    else:", ["C12"]),
 ("no-capacity-cache-clear-on-preset", "selfies/bond_constraints.py", "    # clear cache since we changed alphabet\n    get_semantic_robust_alphabet.cache_clear()\n    get_bonding_capacity.cache_clear()", "    # clear cache since we changed alphabet\n    get_semantic_robust_alphabet.cache_clear()\n    if not isinstance(bond_constraints, str):\n        get_bonding_capacity.cache_clear()", ["C11", "C06"]),
 ("chirality-no-sort", "selfies/encoder.py", "    partition[1].sort(key=lambda x: out_bonds[x].dst)\n", "", ["C04"]),
 ("chirality-never-invert", "selfies/encoder.py", "    return count % 2 != 0  # if odd permutation, should invert chirality", "    return False", ["C04"]),
 ("atom-cache-stores-instance", "selfies/grammar_rules.py", "    bond_info, atom_fac = output\n    atom = atom_fac()", "    bond_info, atom_fac = output\n    atom = atom_fac() if symbol in _BUILTIN else output[1].__dict__.setdefault('_a', None) or atom_fac()", None),
 ("legacy-branch-map", "selfies/compatibility.py", '("[Branch{}_2]", "[=Branch{}]"),', '("[Branch{}_2]", "[#Branch{}]"),', ["C18"]),
 ("legacy-ring-stereo", "selfies/compatibility.py", '("[Expl\\\\Ring{}]", "[\\\\\\\\Ring{}]")', '("[Expl\\\\Ring{}]", "[\\\\/Ring{}]")', ["C18"]),
 ("onehot-pad-off-by-one", "selfies/utils/encoding_utils.py", "    if pad_to_len > len_selfies(selfies):\n        selfies += \"[nop]\" * (pad_to_len - len_selfies(selfies))", "    if pad_to_len > len_selfies(selfies) + 1:\n        selfies += \"[nop]\" * (pad_to_len - len_selfies(selfies))", ["C15", "C13"]),
 ("len-selfies-counts-close", "selfies/utils/selfies_utils.py", 'return selfies.count("[") + selfies.count(".")', 'return selfies.count("]") + selfies.count(".")', ["C14"]),
 ("split-drops-second-dot-symbol", "selfies/utils/selfies_utils.py", '        if selfies[left_idx: left_idx + 1] == ".":\n            yield "."\n            left_idx += 1', '        if selfies[left_idx: left_idx + 1] == ".":\n            yield "."\n            left_idx = selfies.find("[", left_idx)', ["C14"]),
 ("index-digit-swap", "selfies/constants.py", '"[O]", "[N]", "[=N]"', '"[O]", "[=N]", "[N]"', ["C16", "C02"]),
 ("index-three-symbol-base", "selfies/grammar_rules.py", "        index += INDEX_CODE.get(c, 0) * (len(INDEX_CODE) ** i)", "        index += INDEX_CODE.get(c, 0) * (len(INDEX_CODE) ** min(i, 1) * (15 if i == 2 else 1) if i == 2 else len(INDEX_CODE) ** i)", ["C16", "C02"]),
 ("nop-after-index", "selfies/decoder.py", "            if symbol == \"[nop]\":\n                continue", "            if symbol == \"[nop]\" and not compatible:\n                continue", ["C13", "C18"]),
 ("attribute-changes-root", "selfies/decoder.py", "    mol = MolecularGraph(attributable=attribute)\n", "    mol = MolecularGraph(attributable=attribute)\n    if attribute:\n        selfies = selfies.replace('[nop]', '')\n", None),
 ("decoder-attr-branch-stack", "selfies/decoder.py", "                    attribute_stack=attribute_stack +\n                    [Attribution(index + attribution_index, symbol)\n                     ] if attribute_stack is not None else None,", "                    attribute_stack=[Attribution(index + attribution_index, symbol)\n                     ] if attribute_stack is not None else None,", ["C17"]),
 ("encoder-attr-bond-index", "selfies/utils/smiles_utils.py", "    if bond_char:\n        i += 1\n    o = mol.add_atom(atom, mark_root=is_root)", "    if bond_char and not is_root:\n        i += 1\n    o = mol.add_atom(atom, mark_root=is_root)", None),
 ("kekule-prune-n-oxide", "selfies/mol_graph.py", "            return any(used_electrons == v for v in valences)", "            return any(used_electrons >= v for v in valences[:1])", ["C05"]),
 ("greedy-matching-last-neighbour", "selfies/utils/matching_utils.py", "        mate = next(i for i in graph[node] if matching[i] is None)", "        mate = [i for i in graph[node] if matching[i] is None][-1]", []),
 ("blossom-base-skip", "selfies/utils/matching_utils.py", "                    if in_blossom[base[i]]:\n                        base[i] = blossom_base\n                        if not in_tree[i]:", "                    if in_blossom[base[i]]:\n                        base[i] = blossom_base\n                        if not in_tree[i] and i != blossom_base + 1:", ["C05"]),
 ("atom-spelling-H0-dropped", "selfies/utils/smiles_utils.py", '        elif specs == (None, None, 0, 0) and (atom.element in ORGANIC_SUBSET):\n            builder.append("H0")', '        elif specs == (None, None, 0, 0) and (atom.element in ORGANIC_SUBSET) and atom.element != "B":\n            builder.append("H0")', ["C03", "C10"]),
 ("charge-spelling-two-plus", "selfies/utils/smiles_utils.py", "        if atom.charge != 0:\n            builder.append(\"{:+}\".format(atom.charge))", "        if atom.charge == 2:\n            builder.append(\"++\")\n        elif atom.charge != 0:\n            builder.append(\"{:+}\".format(atom.charge))", ["C10", "C03"]),
 ("ring-bond-mismatch-allowed", "selfies/utils/smiles_utils.py", "        order=max(lorder, rorder)", "        order=min(lorder, rorder) if (lbond_char and rbond_char) else max(lorder, rorder)", []),
 ("decoder-module-rings", "selfies/decoder.py", "    rings = []\n", "    global _RINGS\n    _RINGS.clear()\n    rings = _RINGS\n", ["C19"]),
 ("encoder-module-ringlog", "selfies/utils/smiles_utils.py", "    ring_log = dict()  # keep track of hanging ring numbers\n", "    ring_log = _RING_LOG  # keep track of hanging ring numbers\n    ring_log.clear()\n", ["C19"]),
 ("atom-instance-cache", "selfies/grammar_rules.py", "    bond_info, atom_fac = output\n    atom = atom_fac()", "    bond_info, atom_fac = output\n    atom = atom_fac() if symbol in _BUILTIN else _INSTANCES.setdefault(symbol, atom_fac())", ["C02", "C11", "C19"]),
 ("encoder-module-token-deque", "selfies/utils/smiles_utils.py", "    tokens = deque(tokenize_smiles(smiles))\n", "    tokens = _TOKENS\n    tokens.clear()\n    tokens.extend(tokenize_smiles(smiles))\n", ["C19", "C11"]),
 ("kekulize-module-scratch", "selfies/mol_graph.py", "        pruned_ds = [list() for _ in range(len(kept_nodes))]", "        del _PRUNED[:]\n        _PRUNED.extend(list() for _ in range(len(kept_nodes)))\n        pruned_ds = _PRUNED", ["C19"]),
 ("stereo-mark-ring-swap", "selfies/encoder.py", '        bond_char = "-" if (lbond.stereo is None) else lbond.stereo\n        bond_char += "-" if (rbond.stereo is None) else rbond.stereo', '        bond_char = "-" if (lbond.stereo is None) else lbond.stereo\n        bond_char += "-" if (rbond.stereo is None) else (rbond.stereo if lbond.stereo is None else lbond.stereo)', ["C04"]),
]
PRE = {
 "atom-instance-cache": ("selfies/grammar_rules.py", "_PROCESS_ATOM_CACHE = _build_atom_cache()", "_PROCESS_ATOM_CACHE = _build_atom_cache()\n_BUILTIN = set(_PROCESS_ATOM_CACHE)\n_INSTANCES = dict()"),
 "encoder-module-token-deque": ("selfies/utils/smiles_utils.py", "def smiles_to_mol(", "_TOKENS = deque()\n\n\ndef smiles_to_mol("),
 "kekulize-module-scratch": ("selfies/mol_graph.py", "@dataclass\nclass Attribution:", "_PRUNED = []\n\n\n@dataclass\nclass Attribution:"),
 "decoder-module-rings": ("selfies/decoder.py", "def decoder(", "_RINGS = []\n\n\ndef decoder("),
 "encoder-module-ringlog": ("selfies/utils/smiles_utils.py", "def _derive_mol_from_tokens(", "_RING_LOG = dict()\n\n\ndef _derive_mol_from_tokens("),
 "atom-cache-stores-instance": ("selfies/grammar_rules.py", "_PROCESS_ATOM_CACHE = _build_atom_cache()", "_PROCESS_ATOM_CACHE = _build_atom_cache()\n_BUILTIN = set(_PROCESS_ATOM_CACHE)"),
}


def make_tree(name):
    ent = [m for m in M if m[0] == name][0]
    d = tempfile.mkdtemp(prefix="own-%s-" % name, dir="/tmp")
    subprocess.run(["git", "-C", "/repo", "worktree", "add", "-q", "--detach", d + "/wt", "HEAD"], check=True)
    wt = d + "/wt"
    edits = [(ent[1], ent[2], ent[3])]
    if name in PRE:
        edits.insert(0, PRE[name])
    for f, old, new in edits:
        p = os.path.join(wt, f)
        s = open(p).read()
        if old not in s:
            raise SystemExit("mutant %s: pattern not found in %s" % (name, f))
        open(p, "w").write(s.replace(old, new, 1))
    return d, wt


def drop_tree(d):
    subprocess.run(["git", "-C", "/repo", "worktree", "remove", "--force", d + "/wt"])
    shutil.rmtree(d, ignore_errors=True)


def load():
    return json.load(open(OUT)) if os.path.exists(OUT) else {}


def save(d):
    os.makedirs(os.path.dirname(OUT), exist_ok=True)
    json.dump(d, open(OUT, "w"), indent=1)


def baseline(names):
    def one(name):
        d, wt = make_tree(name)
        try:
            imp = subprocess.run(["/venv/bin/python", "-B", "-c", "import selfies"], cwd=wt, capture_output=True, text=True)
            if imp.returncode:
                return name, "import-fails", imp.stderr[-200:]
            pr = subprocess.run([os.path.join(VERIF, "tools", "run_baseline.sh"), wt], capture_output=True, text=True)
            bad = [l for l in pr.stdout.splitlines() if "NOT PASSING" in l and "test_path12" not in l]
            if "baseline:" not in pr.stdout:
                return name, "suite-did-not-run", (pr.stdout + pr.stderr)[-300:]
            return name, ("killed-by-suite" if bad else "survives"), "; ".join(x.strip() for x in bad)[:300]
        finally:
            drop_tree(d)
    res = load()
    with ThreadPoolExecutor(8) as ex:
        for name, verdict, detail in ex.map(one, names):
            res.setdefault(name, {})["suite"] = verdict
            res[name]["suite_detail"] = detail
            print(name, verdict, flush=True)
            save(res)


def check(names, props_override=None):
    res = load()
    for name in names:
        ent = [m for m in M if m[0] == name][0]
        props = props_override or ent[4]
        if props is None:
            props = ["C%02d" % i for i in range(1, 20)]
        if not props:
            props = ["C%02d" % i for i in range(1, 20)]
        d, wt = make_tree(name)
        try:
            out = {}
            for p in props:
                env = dict(os.environ, VERIF_REPO=wt, VERIF_EVIDENCE_DIR=d + "/evidence", VERIF_REPLAY_DIR=d + "/replays")
                pr = subprocess.run([os.path.join(VERIF, "check"), p, "--tier", "quick"], capture_output=True, text=True, env=env, cwd=VERIF)
                sigs = [l.strip()[11:].strip() for l in pr.stdout.splitlines() if l.strip().startswith("signature:")]
                out[p] = {"exit": pr.returncode, "signatures": sigs[:4]}
                if pr.returncode not in (0, 1):
                    out[p]["stderr"] = pr.stderr[-300:]
                print(name, p, pr.returncode, sigs[:2], flush=True)
            res.setdefault(name, {})["checks"] = out
            res[name]["caught_by"] = sorted(p for p, v in out.items() if v["exit"] == 1)
            res[name]["expected"] = ent[4]
            save(res)
        finally:
            drop_tree(d)


if __name__ == "__main__":
    mode = sys.argv[1]
    names = sys.argv[2:] or [m[0] for m in M]
    if mode == "baseline":
        baseline(names)
    elif mode == "check":
        check(names)
    elif mode == "checkall":
        check(names, ["C%02d" % i for i in range(1, 20)])
