#!/usr/bin/env python3
"""merge eval results + notes into seeded/<id>/meta.json and print the DESIGN table"""
import json, os, sys, glob
VERIF = os.path.dirname(os.path.dirname(os.path.abspath(__file__)))
NOTES = json.load(open(os.path.join(VERIF, "seeded", "notes.json"))) if os.path.exists(os.path.join(VERIF, "seeded", "notes.json")) else {}
rows = []
for d in sorted(glob.glob(os.path.join(VERIF, "seeded", "*", ""))):
    sid = os.path.basename(d.rstrip("/"))
    mp = os.path.join(d, "meta.json")
    if not os.path.exists(mp):
        continue
    m = json.load(open(mp))
    caught = {}
    for ev in glob.glob(os.path.join(d, "eval_*.json")):
        e = json.load(open(ev))
        for p, v in e["results"].items():
            if v["exit"] == 1:
                caught.setdefault(p, set()).update(s.split("   ")[0].replace("signature: ", "") for s in v["signatures"])
    m["caught_by"] = {p: sorted(s) for p, s in sorted(caught.items())}
    m["evaluated_with"] = "tools/seeded_eval.py %s <checks>  (scratch worktree of /repo HEAD + patch, VERIF_REPO=<scratch>, quick tier)" % sid
    n = NOTES.get(sid, {})
    m.update(n)
    json.dump(m, open(mp, "w"), indent=1)
    rows.append((sid, m.get("property"), m.get("summary", ""), m.get("needs", ""), ", ".join("%s (%s)" % (p, "; ".join(s[:2])) for p, s in m["caught_by"].items()) or "NOT CAUGHT", m.get("strengthened", "")))
import io
buf = io.StringIO()
_print = print
def print(*a):
    _print(*a, file=buf)
print("| seeded change | breaks | what it is | needs, to manifest | caught by (signatures) | check strengthened because of it |")
print("|---|---|---|---|---|---|")
for r in rows:
    print("| " + " | ".join(str(x) for x in r) + " |")

table = buf.getvalue().rstrip("\n")
open(os.path.join(VERIF, "seeded", "TABLE.md"), "w").write(table + "\n")
dp = os.path.join(VERIF, "DESIGN.md")
ds = open(dp).read()
b, e = "<!-- SEEDED-TABLE-BEGIN -->", "<!-- SEEDED-TABLE-END -->"
if b in ds and e in ds:
    ds = ds[:ds.index(b) + len(b)] + "\n" + table + "\n" + ds[ds.index(e):]
    open(dp, "w").write(ds)
_print("%d seeded changes; not caught: %s" % (len(rows), [r[0] for r in rows if r[4] == "NOT CAUGHT"]))
